package main

// End-to-end tier of C04: a real server, a pion publisher sending a generated VP9 SVC or
// VP8 temporal-layer stream (vdown.Generate: multi-packet frames, up-switch flags,
// keyframes), and scripted pion subscribers whose requests ("video", "video-low", a change
// between the two) and REMB feedback go through the real signalling and RTCP paths.
//
// What the oracle knows per subscriber and source packet: received (forwarded), withheld
// (the down track's successful packetmap.Drop, trace point under the verif tag), or
// unknown (lost somewhere).  A forwarded packet is evidence about the selected layer only
// if it arrived in order at the down track, i.e. its predecessor was forwarded or withheld
// (the property speaks of packets that arrive in order; after a gap galene forwards
// whatever comes).  From this evidence the selected layer is bounded from below (a
// forwarded packet of layer l: selection >= l) and from above (a withheld packet of layer
// l: selection < l), and the property's switching rules are checked on the bounds.

import (
	"fmt"
	"os"
	"strings"
	"sync"
	"time"

	"verif/harness/vdown"
	"verif/harness/vk"
	"verif/harness/vmedia"
	"verif/harness/vsrv"
)

type e2eArgs struct {
	Index    uint64 `json:"index"`
	Sessions int    `json:"sessions"`
	Pictures int    `json:"pictures"`
}

const (
	stU = iota // unknown
	stF        // forwarded, arrived in order: evidence
	stf        // forwarded, but its predecessor is unknown: no evidence
	stW        // withheld
)

func statuses(res vmedia.GenResult, sub *vmedia.GenSub) []int {
	st := make([]int, len(res.Src))
	for _, rx := range sub.Rx {
		if rx.Idx >= 0 && rx.Idx < len(st) {
			st[rx.Idx] = stf
		}
	}
	for i := range st {
		if sub.Withheld[i] && st[i] == stU {
			st[i] = stW
		}
	}
	for i := len(st) - 1; i > 0; i-- {
		if st[i] == stf && st[i-1] != stU {
			st[i] = stF
		}
	}
	return st
}

func e2eChild() {
	run := vk.Start("C04")
	var a e2eArgs
	vk.ChildArgs(&a)
	srv, err := vsrv.Start(vsrv.Config{Root: os.Getenv("VERIF_CHILD_DIR"), LogToFile: true})
	if err != nil {
		run.Inconclusive("server start: " + err.Error())
		os.Exit(0)
	}
	var wg sync.WaitGroup
	for s := 0; s < a.Sessions; s++ {
		wg.Add(1)
		go func(s int) {
			defer wg.Done()
			r := run.Rand(9, a.Index, uint64(s))
			name := fmt.Sprintf("%d-%d", a.Index, s)
			if s%2 == 0 {
				// spatial layers
				cfg := &vdown.StreamCfg{Codec: vdown.VP9, StartSeq: uint16(r.UintN(65536)), PidBits: 15, StartPid: uint16(r.UintN(32768)), StartTS: uint32(r.Uint64()),
					Flexible: r.IntN(2) == 0, SLayers: 2 + r.IntN(2), TPattern: []uint8{0}, KeyEvery: 20 + r.IntN(20), MaxPktsPerFrame: 2, MaxFill: 200, Pictures: a.Pictures}
				n := a.Pictures * cfg.SLayers * 3 / 2
				scripts := []vmedia.SubScript{
					{Name: "H", Request: "video", SwitchAt: -1},
					{Name: "L", Request: "video-low", SwitchAt: -1},
					{Name: "S", Request: "video", SwitchAt: n/4 + r.IntN(n/4), SwitchTo: "video-low"},
					{Name: "B", Request: "video-low", SwitchAt: n/4 + r.IntN(n/4), SwitchTo: "video"},
				}
				// every other spatial session publishes a microphone in the same stream
				mic := s%4 == 0
				res := vmedia.RunGen(srv, name, cfg, scripts, r, mic)
				if !res.OK {
					run.Count("e2e_sessions_not_established", 1)
					run.Note("session " + name + ": " + res.Why)
					run.Count("e2e_not_established: "+res.Why, 1)
					return
				}
				if mic {
					run.Count("e2e_spatial_sessions_with_a_microphone_in_the_stream", 1)
				}
				for _, sub := range res.Subs {
					judgeSpatial(run, name, cfg, res, sub)
				}
				run.Count("e2e_spatial_sessions", 1)
			} else {
				cfg := &vdown.StreamCfg{Codec: vdown.VP8, StartSeq: uint16(r.UintN(65536)), PidBits: []int{7, 15}[r.IntN(2)], StartPid: uint16(r.UintN(32768)), StartTS: uint32(r.Uint64()),
					VP8L: r.IntN(2) == 0, TPattern: vdown.TemporalPatterns[2+r.IntN(2)], UpSyncProb: []float64{0.1, 0.3, 1}[r.IntN(3)], KeyEvery: 40 + r.IntN(40), MaxPktsPerFrame: 3, MaxFill: 200, Pictures: a.Pictures * 2}
				n := a.Pictures * 2 * 2
				scripts := []vmedia.SubScript{
					{Name: "H", Request: "video", SwitchAt: -1},
					{Name: "R", Request: "video", SwitchAt: -1, Rembs: []vmedia.RembPhase{{From: n / 8, Until: n / 2, Bps: 20000}, {From: n / 2, Until: n, Bps: 8e6}}},
					{Name: "Q", Request: "video", SwitchAt: -1, Rembs: []vmedia.RembPhase{{From: n / 3, Until: n, Bps: float32(20000 + r.IntN(200000))}}},
				}
				res := vmedia.RunGen(srv, name, cfg, scripts, r)
				if !res.OK {
					run.Count("e2e_sessions_not_established", 1)
					run.Note("session " + name + ": " + res.Why)
					run.Count("e2e_not_established: "+res.Why, 1)
					return
				}
				for _, sub := range res.Subs {
					judgeTemporal(run, name, cfg, res, sub)
				}
				run.Count("e2e_temporal_sessions", 1)
			}
		}(s)
	}
	wg.Wait()
	os.Exit(0)
}

// around lists the packets of pictures lo..hi with what is known about them.
func around(res vmedia.GenResult, sub *vmedia.GenSub, st []int, lo, hi int) string {
	var b strings.Builder
	for i, p := range res.Src {
		if p.Pic < lo || p.Pic > hi {
			continue
		}
		fmt.Fprintf(&b, " [#%d src-seq %d pic%d s%d t%d%s%s%s %s", i, p.Seqno(), p.Pic, p.Sid, p.Tid, map[bool]string{true: " start"}[p.Start], map[bool]string{true: " end"}[p.End], map[bool]string{true: " KEY"}[p.Key], []string{"unknown", "FORWARDED", "forwarded-after-gap", "WITHHELD"}[st[i]])
		for k, rx := range sub.Rx {
			if rx.Idx == i {
				fmt.Fprintf(&b, " (arrival %d as seq %d m=%v)", k, rx.Seq, rx.Marker)
			}
		}
		b.WriteString("]")
	}
	return b.String()
}

// judgeSpatial: single temporal layer, no non-reference frames, so a packet is withheld
// exactly when its spatial layer is above the selection.
func judgeSpatial(run *vk.Run, name string, cfg *vdown.StreamCfg, res vmedia.GenResult, sub *vmedia.GenSub) {
	who := sub.Script.Name
	rep := map[string]any{"e2e_session": name, "subscriber": who}
	if len(sub.Rx) < 50 {
		run.Count("e2e_subscriber_streams_too_short", 1)
		return
	}
	st := statuses(res, sub)
	npic := res.Src[len(res.Src)-1].Pic + 1
	lo := make([]int, npic) // selection >= lo
	hi := make([]int, npic) // selection <= hi
	keyPic := make([]bool, npic)
	firstIdx := make([]int, npic)
	for p := range hi {
		hi[p] = cfg.SLayers - 1
		firstIdx[p] = -1
	}
	evidence := 0
	for i, p := range res.Src {
		if firstIdx[p.Pic] < 0 {
			firstIdx[p.Pic] = i
		}
		if p.Key {
			keyPic[p.Pic] = true
		}
		switch st[i] {
		case stF:
			lo[p.Pic] = max(lo[p.Pic], int(p.Sid))
			evidence++
		case stW:
			hi[p.Pic] = min(hi[p.Pic], int(p.Sid)-1)
			evidence++
		}
	}
	run.Eval(int64(evidence))
	// the first picture is where new top layers appear for the first time (eager follow)
	runLo, runHi, runStart := 0, cfg.SLayers-1, 1
	sawUpper, sawUpperWithheld := false, false
	switchedAtKey := 0
	prevSel := -1
	for p := 1; p < npic; p++ {
		if lo[p] > hi[p] {
			run.Violation("e2e:spatial-layer-changed-mid-picture", fmt.Sprintf("subscriber %s (request %s): in picture %d a packet of spatial layer %d was forwarded in order and a packet of layer %d withheld: the selected spatial layer changed inside a picture:%s", who, sub.Script.Request, p, lo[p], hi[p]+1, around(res, sub, st, p-1, p)), rep)
			return
		}
		if keyPic[p] {
			if runLo == runHi && prevSel >= 0 && prevSel != runLo {
				switchedAtKey++
			}
			if runLo == runHi {
				prevSel = runLo
			}
			runLo, runHi, runStart = 0, cfg.SLayers-1, p
		}
		runLo, runHi = max(runLo, lo[p]), min(runHi, hi[p])
		if runLo > runHi {
			run.Violation("e2e:spatial-layer-changed-without-keyframe", fmt.Sprintf("subscriber %s (request %s): between the keyframe at picture %d and picture %d the evidence needs a selected spatial layer >= %d and <= %d: it changed where no keyframe started:%s", who, sub.Script.Request, runStart, p, runLo, runHi, around(res, sub, st, p-1, p)), rep)
			return
		}
		if lo[p] > 0 {
			sawUpper = true
		}
		if hi[p] < cfg.SLayers-1 {
			sawUpperWithheld = true
		}
		// the low-quality clause
		low := sub.Script.Request == "video-low" && sub.Script.SwitchAt < 0
		if sub.Script.SwitchTo == "video-low" && sub.SwitchAcked >= 0 && firstIdx[runStart] > sub.SwitchAcked && keyPic[runStart] {
			low = true
		}
		if low && lo[p] > 0 {
			run.Violation("e2e:low-quality-request-not-steered-to-lowest-layer", fmt.Sprintf("subscriber %s asked for video-low from a non-simulcast publisher (request in force since before the keyframe at picture %d); in picture %d a packet of spatial layer %d was forwarded to it", who, runStart, p, lo[p]), rep)
			return
		}
		if low {
			run.Count("e2e_low_quality_pictures_checked", 1)
		}
	}
	run.Count("e2e_spatial_streams_judged", 1)
	run.Count("e2e_spatial_switches_at_keyframes", int64(switchedAtKey))
	if who == "H" && sawUpper {
		run.Count("e2e_full_quality_streams_with_upper_layers", 1)
	}
	if (who == "L" || who == "S") && sawUpperWithheld {
		run.Count("e2e_low_quality_streams_with_upper_layers_withheld", 1)
	}
	if who == "S" && sawUpper && sawUpperWithheld {
		run.Count("e2e_streams_switched_to_low_quality_midway", 1)
	}
	run.Distinct(fmt.Sprintf("e2e spatial %s sl%d flex%v upper%v withheld%v switches%d", who, cfg.SLayers, cfg.Flexible, sawUpper, sawUpperWithheld, min(switchedAtKey, 3)))
}

// judgeTemporal: one spatial layer, so a packet is withheld exactly when its temporal
// layer is above the selection.
func judgeTemporal(run *vk.Run, name string, cfg *vdown.StreamCfg, res vmedia.GenResult, sub *vmedia.GenSub) {
	who := sub.Script.Name
	rep := map[string]any{"e2e_session": name, "subscriber": who}
	if len(sub.Rx) < 50 {
		run.Count("e2e_subscriber_streams_too_short", 1)
		return
	}
	st := statuses(res, sub)
	nfr := res.Src[len(res.Src)-1].Frame + 1
	type fr struct {
		tid        int
		fwd, wh    bool
		key, sync  bool
		firstOfTid bool
	}
	frames := make([]fr, nfr)
	seenTid := map[uint8]bool{}
	evidence := 0
	for i, p := range res.Src {
		f := &frames[p.Frame]
		f.tid = int(p.Tid)
		if p.Start {
			f.key = p.Key
			f.sync = p.UpSync
			if !seenTid[p.Tid] {
				seenTid[p.Tid] = true
				f.firstOfTid = true
			}
		}
		switch st[i] {
		case stF:
			f.fwd = true
			evidence++
		case stW:
			f.wh = true
			evidence++
		}
	}
	run.Eval(int64(evidence))
	falls, rises := 0, 0
	// ub: what the evidence says the selected temporal layer is at most (99: nothing known)
	// since frame ubFrame; below: the selection was certainly >= lastFwdTid at the last
	// forwarded frame
	ub, ubFrame, ubTid := 99, -1, 0
	lastFwdTid := -1
	for k := range frames {
		f := &frames[k]
		if f.fwd && f.wh {
			run.Violation("e2e:frame-partly-forwarded", fmt.Sprintf("subscriber %s: of frame %d (temporal layer %d) one packet was forwarded in order and another withheld: the selected temporal layer changed inside a frame", who, k, f.tid), rep)
			return
		}
		before := ub
		switch {
		case f.key:
			ub = 99 // any layer may be selected from a keyframe on
		case f.sync || f.firstOfTid:
			ub = max(ub, f.tid) // an up-switch point for this frame's layer (or the first appearance of a new top layer)
		}
		if f.wh {
			if lastFwdTid >= f.tid {
				falls++
			}
			lastFwdTid = min(lastFwdTid, f.tid-1)
			if f.tid-1 < ub {
				ub, ubFrame, ubTid = f.tid-1, k, f.tid
			}
		}
		if f.fwd {
			if f.tid > ub {
				run.Violation("e2e:temporal-layer-rose-without-switch-point", fmt.Sprintf("subscriber %s: frame %d of temporal layer %d was withheld, and frame %d of layer %d was forwarded in order although no keyframe and no frame marked as an up-switch point for a layer >= %d came after the former, up to and including the latter", who, ubFrame, ubTid, k, f.tid, f.tid), rep)
				return
			}
			if f.tid > before {
				rises++
			}
			lastFwdTid = max(lastFwdTid, f.tid)
		}
	}
	run.Count("e2e_temporal_streams_judged", 1)
	run.Count("e2e_temporal_falls_observed", int64(falls))
	run.Count("e2e_temporal_rises_at_switch_points", int64(rises))
	run.Distinct(fmt.Sprintf("e2e temporal %s sync%.1f falls%v rises%v", who, cfg.UpSyncProb, falls > 0, rises > 0))
}

func e2eTier(run *vk.Run) {
	batches := run.Pick(1, 8)
	sessions := run.Pick(6, 10)
	pictures := run.Pick(500, 900)
	var wg sync.WaitGroup
	sem := make(chan struct{}, 2)
	for b := 0; b < batches; b++ {
		wg.Add(1)
		sem <- struct{}{}
		go func(b int) {
			defer wg.Done()
			defer func() { <-sem }()
			res := run.RunChild("e2e", e2eArgs{Index: uint64(b), Sessions: sessions, Pictures: pictures}, 10*time.Minute)
			switch {
			case strings.HasPrefix(res.Crash, "harness-crash:"):
				run.Inconclusive("e2e: harness crashed: " + res.Crash + "\n" + res.CrashText)
			case res.Crash != "":
				run.Violation("e2e:server-crashed:"+res.Crash, "the server died in the end-to-end tier: "+res.Crash, map[string]any{"e2e_batch": b, "crash": res.CrashText})
			case res.TimedOut:
				run.Inconclusive("e2e: watchdog fired")
			}
		}(b)
	}
	wg.Wait()
	run.FloorCounter("e2e_spatial_streams_judged", int64(batches*sessions))
	run.FloorCounter("e2e_temporal_streams_judged", int64(batches*sessions))
	run.FloorCounter("e2e_low_quality_pictures_checked", 500)
	run.FloorCounter("e2e_full_quality_streams_with_upper_layers", int64(batches))
	run.FloorCounter("e2e_streams_switched_to_low_quality_midway", int64(batches))
	run.FloorCounter("e2e_spatial_sessions_with_a_microphone_in_the_stream", 1)
	run.Assume("end-to-end tier: the set of packets a down track deliberately withheld is what its successful packetmap.Drop calls report through the verif trace point; a changed request counts as in force once 50 ping/pong round trips on the same socket have completed after it")
}
