// C01 - forwarded sequence numbers stay gap-free, unique and ordered under drops.
//
// Oracle (reference model from the property text, no galene code): W = set of source
// positions the server withheld (a packet that arrived as the new highest and produced
// no output).  Every output for source position i must carry
//
//	out == seqno(i) - |{w in W : w < i}|   (mod 2^16)
//
// a position in W never produces output later, and a duplicate/late copy gets the same
// number (which the formula implies).  Because the right-hand side is strictly
// increasing over forwarded positions, uniqueness and order follow from it.
//
// Tier (a) drives packetmap.Map through its public API (the harness asks for drops);
// tier (b) drives the real rtpDownTrack.Write, where drops are caused by the layer
// selection; a small-scope family enumerates all short histories.
package main

import (
	"fmt"
	"runtime"
	"sync"
	"sync/atomic"

	"github.com/jech/galene/packetmap"

	"verif/harness/vdown"
	"verif/harness/vk"
)

type pureResult struct {
	drops, lateFwd, dupFwd, lateWithheldRefused, wraps int
	sawGap                                             bool
}

// genPure: history number i; every fourth long one is the full-cycle family.
func genPure(run *vk.Run, i uint64, long bool) vdown.PureCase {
	if long && i%4 == 3 {
		return vdown.GenPureCycle(run.Rand(1, i))
	}
	return vdown.GenPure(run.Rand(1, i), long)
}

// runPure executes one history against a fresh Map and the oracle.
func runPure(run *vk.Run, c vdown.PureCase, replay any, exhaustive bool) (res pureResult, failed bool) {
	var m packetmap.Map
	fw := vdown.NewFenwick(c.N + 1)
	withheld := make(map[int]bool)
	outOf := make(map[int]uint16)
	hi := -1
	seq := func(i int) uint16 { return c.Start + uint16(i) }
	fail := func(key, what string, at int) {
		failed = true
		run.Violation(key, what, map[string]any{"case": replay, "failed_at_step": at, "start": c.Start, "steps_until_failure": c.Steps[max(0, at-80) : at+1]})
	}
	for k, st := range c.Steps {
		i := st.Idx
		s := seq(i)
		pid := uint16(i / 3)
		if c.NoPid {
			pid = 0
		}
		dropped := false
		if st.Drop {
			dropped = m.Drop(s, pid)
		}
		isNew := i > hi
		if dropped {
			res.drops++
			if !isNew {
				// a drop accepted for a packet that is not the new highest changes an offset
				// retroactively; the formula below would catch the consequence, flag the cause
				fail("pure:drop-accepted-out-of-order", fmt.Sprintf("Drop(%d) accepted although position %d <= highest processed %d", s, i, hi), k)
				return
			}
			withheld[i] = true
			fw.Add(i)
			hi = i
			continue
		}
		ok, out, _ := m.Map(s, pid)
		if withheld[i] {
			if ok {
				fail("pure:withheld-forwarded-later", fmt.Sprintf("position %d (seqno %d) was withheld and is later mapped to %d", i, s, out), k)
				return
			}
			res.lateWithheldRefused++
			continue
		}
		if isNew {
			if i > hi+1 {
				res.sawGap = true
			}
			if int(seq(i)) < int(seq(hi)) && hi >= 0 {
				res.wraps++
			}
			hi = i
		}
		if !ok {
			continue // a late packet the map no longer remembers: allowed (nothing is sent)
		}
		want := s - uint16(fw.Below(i))
		if out != want {
			kind := "new"
			if !isNew {
				kind = "late"
			}
			fail("pure:wrong-out-seqno:"+kind, fmt.Sprintf("position %d seqno %d mapped to %d, want %d (%d earlier packets withheld)", i, s, out, want, fw.Below(i)), k)
			return
		}
		if prev, seen := outOf[i]; seen {
			if prev != out {
				fail("pure:duplicate-renumbered", fmt.Sprintf("position %d first mapped to %d, copy mapped to %d", i, prev, out), k)
				return
			}
			res.dupFwd++
		} else if !isNew {
			res.lateFwd++
		}
		outOf[i] = out
	}
	return
}

// exhaustive small-scope family -------------------------------------------------

var alphabet = []string{"next", "gap1", "gap3", "dup", "late1", "late3", "dropnext", "droplate"}

func runExhaustive(run *vk.Run, start uint16, depth int) int64 {
	var count atomic.Int64
	var wg sync.WaitGroup
	sem := make(chan struct{}, runtime.GOMAXPROCS(0))
	// fan out on the first two letters
	for a := 0; a < len(alphabet); a++ {
		for b := 0; b < len(alphabet); b++ {
			wg.Add(1)
			sem <- struct{}{}
			go func(a, b int) {
				defer wg.Done()
				defer func() { <-sem }()
				word := make([]int, depth)
				word[0], word[1] = a, b
				var rec func(pos int)
				rec = func(pos int) {
					if pos == depth {
						c := wordToCase(start, word)
						runPure(run, c, map[string]any{"exhaustive_word": append([]int(nil), word...), "start": start}, true)
						count.Add(1)
						return
					}
					for l := 0; l < len(alphabet); l++ {
						word[pos] = l
						rec(pos + 1)
					}
				}
				rec(2)
			}(a, b)
		}
	}
	wg.Wait()
	return count.Load()
}

func wordToCase(start uint16, word []int) vdown.PureCase {
	c := vdown.PureCase{Start: start}
	hi := 0
	c.Steps = append(c.Steps, vdown.Step{0, false})
	for _, l := range word {
		switch alphabet[l] {
		case "next":
			hi++
			c.Steps = append(c.Steps, vdown.Step{hi, false})
		case "gap1":
			hi += 2
			c.Steps = append(c.Steps, vdown.Step{hi, false})
		case "gap3":
			hi += 4
			c.Steps = append(c.Steps, vdown.Step{hi, false})
		case "dup":
			c.Steps = append(c.Steps, vdown.Step{hi, false})
		case "late1":
			c.Steps = append(c.Steps, vdown.Step{max(0, hi-1), false})
		case "late3":
			c.Steps = append(c.Steps, vdown.Step{max(0, hi-3), false})
		case "dropnext":
			hi++
			c.Steps = append(c.Steps, vdown.Step{hi, true})
		case "droplate":
			c.Steps = append(c.Steps, vdown.Step{max(0, hi-1), true})
		}
	}
	c.N = hi + 2
	return c
}

// tier (b): the real forwarding path --------------------------------------------

type ddCase struct {
	Index uint64 `json:"index"`
}

func runDirect(run *vk.Run, idx uint64) {
	r := run.Rand(2, idx)
	codec := vdown.VP8
	if r.IntN(3) == 0 {
		codec = vdown.VP9
	}
	cfg := &vdown.StreamCfg{Codec: codec, PidBits: []int{0, 7, 15}[r.IntN(3)], StartPid: uint16(r.UintN(32768)),
		StartTS: uint32(r.Uint64()), TPattern: vdown.TemporalPatterns[1+r.IntN(3)], UpSyncProb: 0.5,
		KeyEvery: []int{0, 20, 50}[r.IntN(3)], MaxPktsPerFrame: 1 + r.IntN(4), MaxFill: 40, Pictures: 60 + r.IntN(300)}
	if codec == vdown.VP9 {
		cfg.SLayers = 1 + r.IntN(3)
		cfg.Flexible = r.IntN(2) == 0
		cfg.ZProb = 0.2
	}
	if r.IntN(2) == 0 {
		cfg.StartSeq = vdown.ForcedStarts[r.IntN(len(vdown.ForcedStarts))]
	} else {
		cfg.StartSeq = uint16(r.UintN(65536))
	}
	src := vdown.Generate(cfg, r)
	for _, p := range src[:min(len(src), 20)] {
		if err := vdown.SelfCheck(codec, p); err != nil {
			run.Inconclusive("harness self-check: " + err.Error())
			return
		}
	}
	dl := vdown.DeliveryCfg{LossProb: []float64{0, 0.02}[r.IntN(2)], DupProb: []float64{0, 0.05}[r.IntN(2)],
		ReorderProb: []float64{0, 0.05, 0.2}[r.IntN(3)], MaxDelay: []int{2, 10, 60}[r.IntN(3)]}
	order := vdown.Schedule(len(src), dl, r)
	w := vdown.NewWorld(codec, 64+r.IntN(512))
	fw := vdown.NewFenwick(len(src) + 1)
	withheld := map[int]bool{}
	outOf := map[int]uint16{}
	hi := -1
	drops, lateFwd, dupFwd := 0, 0, 0
	nextSwitch := 10 + r.IntN(40)
	var trail []string
	fail := func(key, what string) {
		n := len(trail)
		run.Violation(key, what, map[string]any{"direct_index": idx, "codec": codec.Mime(), "start_seq": cfg.StartSeq, "trail": trail[max(0, n-60):]})
	}
	for k, i := range order {
		if k == nextSwitch {
			if r.IntN(3) > 0 {
				w.SwitchDown()
				trail = append(trail, "switch-down")
			} else {
				w.SwitchUp()
				trail = append(trail, "switch-up")
			}
			nextSwitch = k + 15 + r.IntN(80)
		}
		p := src[i]
		outs, _, err := w.Deliver(p)
		run.Eval(1)
		trail = append(trail, fmt.Sprintf("%v -> %d out", p, len(outs)))
		if err != nil {
			fail("direct:write-error", fmt.Sprintf("Write returned %v for %v", err, p))
			return
		}
		if len(outs) > 1 {
			fail("direct:multiple-outputs", fmt.Sprintf("%d packets written for one input %v", len(outs), p))
			return
		}
		isNew := i > hi
		if len(outs) == 0 {
			if isNew {
				withheld[i] = true
				fw.Add(i)
				hi = i
				drops++
			}
			continue
		}
		q, perr := vdown.Parse(codec, outs[0].Raw)
		if perr != nil || q.Idx != i {
			fail("direct:output-not-the-input", fmt.Sprintf("output for %v does not carry its id (parse err %v)", p, perr))
			return
		}
		if withheld[i] {
			fail("direct:withheld-forwarded-later", fmt.Sprintf("%v was withheld and is later forwarded as %d", p, q.Header.SequenceNumber))
			return
		}
		if isNew {
			hi = i
		}
		want := p.Seqno() - uint16(fw.Below(i))
		got := q.Header.SequenceNumber
		if got != want {
			kind := "new"
			if !isNew {
				kind = "late"
			}
			fail("direct:wrong-out-seqno:"+kind, fmt.Sprintf("%v forwarded as %d, want %d (%d earlier packets withheld)", p, got, want, fw.Below(i)))
			return
		}
		if prev, seen := outOf[i]; seen {
			if prev != got {
				fail("direct:duplicate-renumbered", fmt.Sprintf("%v first forwarded as %d, copy as %d", p, prev, got))
				return
			}
			dupFwd++
		} else if !isNew {
			lateFwd++
		}
		outOf[i] = got
	}
	run.Count("direct_histories", 1)
	run.Count("direct_withheld", int64(drops))
	run.Count("direct_late_forwarded", int64(lateFwd))
	run.Count("direct_duplicates_forwarded", int64(dupFwd))
	if drops > 0 && (lateFwd > 0 || dupFwd > 0) {
		run.Distinct(fmt.Sprintf("direct c%d pid%d sl%d pat%d key%d loss%v dup%v re%v/%d", codec, cfg.PidBits, cfg.SLayers, len(cfg.TPattern), cfg.KeyEvery, dl.LossProb, dl.DupProb, dl.ReorderProb, dl.MaxDelay))
	}
	if idx < 1 {
		run.Sample(map[string]any{"tier": "direct", "index": idx, "codec": codec.Mime(), "start_seq": cfg.StartSeq, "withheld": drops, "trail_head": trail[:min(len(trail), 12)]})
	}
}

func main() {
	if _, ok := vk.InChild(); ok {
		e2eChild()
		return
	}
	run := vk.Start("C01")
	if rep, ok := vk.ReplayInput(); ok {
		m, _ := rep["replay"].(map[string]any)
		if v, ok := m["direct_index"].(float64); ok {
			runDirect(run, uint64(v))
		} else if cs, ok := m["case"].(map[string]any); ok {
			if pi, ok := cs["pure_index"].(float64); ok {
				long, _ := cs["long"].(bool)
				c := genPure(run, uint64(pi), long)
				runPure(run, c, cs, false)
			} else if wd, ok := cs["exhaustive_word"].([]any); ok {
				var word []int
				for _, x := range wd {
					word = append(word, int(x.(float64)))
				}
				st, _ := cs["start"].(float64)
				runPure(run, wordToCase(uint16(st), word), cs, true)
			}
		}
		run.Finish("exploration", "replay of one recorded case")
	}

	nPure := run.Pick(20000, 2000000)
	nLong := run.Pick(24, 600)
	nDirect := run.Pick(600, 40000)
	workers := runtime.GOMAXPROCS(0)
	var next atomic.Uint64
	var wg sync.WaitGroup
	for wk := 0; wk < workers; wk++ {
		wg.Add(1)
		go func() {
			defer wg.Done()
			for {
				i := next.Add(1) - 1
				if i >= uint64(nPure+nLong) {
					return
				}
				long := i >= uint64(nPure)
				c := genPure(run, i, long)
				res, failed := runPure(run, c, map[string]any{"pure_index": i, "long": long}, false)
				run.Eval(int64(len(c.Steps)))
				if failed {
					continue
				}
				run.Count("pure_histories", 1)
				run.Count("pure_drops", int64(res.drops))
				run.Count("pure_late_forwarded", int64(res.lateFwd))
				run.Count("pure_duplicates_same_number", int64(res.dupFwd))
				run.Count("pure_withheld_copies_refused", int64(res.lateWithheldRefused))
				if res.wraps > 0 {
					run.Count("pure_histories_with_wrap", 1)
				}
				if c.NoPid && res.drops >= 65536 {
					run.Count("pure_histories_with_a_full_cycle_of_withheld_packets", 1)
				}
				if res.drops > 0 && (res.lateFwd > 0 || res.dupFwd > 0) {
					run.Distinct(fmt.Sprintf("pure s%d n%d d%d l%d u%d w%d g%v", c.Start>>13, len(c.Steps)/64, bucket(res.drops), bucket(res.lateFwd), bucket(res.dupFwd), min(res.wraps, 2), res.sawGap))
				}
				if i < 2 {
					run.Sample(map[string]any{"tier": "pure", "index": i, "start": c.Start, "first_steps": c.Steps[:min(len(c.Steps), 30)]})
				}
			}
		}()
	}
	wg.Wait()

	// small-scope exhaustive family
	depth := run.Pick(5, 8)
	var exh int64
	for _, st := range []uint16{0, 57344, 65533} {
		exh += runExhaustive(run, st, depth)
	}
	run.Eval(exh)
	run.Set("exhaustive_histories", exh)
	run.Set("exhaustive_depth", depth)
	run.Set("exhaustive_alphabet", alphabet)

	// direct drive
	next.Store(0)
	for wk := 0; wk < workers; wk++ {
		wg.Add(1)
		go func() {
			defer wg.Done()
			for {
				i := next.Add(1) - 1
				if i >= uint64(nDirect) {
					return
				}
				runDirect(run, i)
			}
		}()
	}
	wg.Wait()

	e2eTier(run)
	run.FloorCounter("pure_drops", 1000)
	run.FloorCounter("pure_late_forwarded", 1000)
	run.FloorCounter("pure_duplicates_same_number", 500)
	run.FloorCounter("pure_histories_with_a_full_cycle_of_withheld_packets", 1)
	run.FloorCounter("pure_withheld_copies_refused", 100)
	run.FloorCounter("pure_histories_with_wrap", 10)
	run.FloorCounter("direct_withheld", 500)
	run.FloorCounter("direct_late_forwarded", 100)
	run.Assume("arrivals stay within the 8192-packet window (the property's quantifier); 'withheld' is observed (a new-highest arrival that produced no output), not assumed")
	run.Assume("tier (b) uses the verif export shim of rtpconn (no logic of its own) and a capturing write stream bound to the real TrackLocalStaticRTP")
	run.Finish("exploration", "tier a: generated arrival histories (loss, duplicates, reordering up to 300, drop requests in 5 patterns, start seqnos uniform and forced to window/wrap boundaries, 16 histories of >66000 packets) against packetmap.Map with the withheld-count formula as oracle, plus ALL histories of length <= depth over an 8-letter alphabet from 3 start seqnos (exhaustive for that sub-space only); tier b: id-tagged VP8/VP9 streams with temporal/spatial layers through the real rtpDownTrack.Write with REMB-driven layer switches; distinct_nontrivial = distinct shapes of histories with at least one drop and one late/duplicate forwarded afterwards")
}

func bucket(c int) int {
	b := 0
	for c > 0 {
		c >>= 1
		b++
	}
	return b
}
