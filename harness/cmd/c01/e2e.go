package main

// End-to-end tier of C01: real server, real PeerConnections (see vmedia).  The publisher
// sends every source packet in order and nothing is lost upstream, so every id a
// subscriber did not receive was withheld by the server: consecutive received ids must
// carry consecutive sequence numbers, the first one its source number (mod 2^16), and
// later copies of an id the same number.  Kernel UDP error counters are sampled around the
// session; a discrepancy counts only if they did not move.

import (
	"fmt"
	"os"
	"sort"
	"strings"
	"sync"
	"time"

	"verif/harness/vk"
	"verif/harness/vmedia"
	"verif/harness/vsrv"
)

type e2eArgs struct {
	Index    uint64 `json:"index"`
	Sessions int    `json:"sessions"`
	Packets  int    `json:"packets"`
}

func e2eChild() {
	run := vk.Start("C01")
	var a e2eArgs
	vk.ChildArgs(&a)
	srv, err := vsrv.Start(vsrv.Config{Root: os.Getenv("VERIF_CHILD_DIR"), LogToFile: true})
	if err != nil {
		run.Inconclusive("server start: " + err.Error())
		os.Exit(0)
	}
	var wg sync.WaitGroup
	for s := 0; s < a.Sessions; s++ {
		wg.Add(1)
		go func(s int) {
			defer wg.Done()
			name := fmt.Sprintf("%d-%d", a.Index, s)
			res := vmedia.Run(srv, name, a.Packets, run.Rand(8, a.Index, uint64(s)))
			if !res.OK {
				run.Count("e2e_sessions_not_established", 1)
				run.Note("session " + name + ": " + res.Why)
				return
			}
			judgeE2E(run, name, "A", res.A, res)
			judgeE2E(run, name, "B", res.B, res)
			run.Count("e2e_sessions", 1)
		}(s)
	}
	wg.Wait()
	os.Exit(0)
}

func judgeE2E(run *vk.Run, name, who string, rx []vmedia.Rx, res vmedia.Result) {
	if len(rx) < 100 {
		run.Count("e2e_subscriber_streams_too_short", 1)
		return
	}
	first := map[uint32]vmedia.Rx{}
	copies := 0
	for _, p := range rx {
		if f, ok := first[p.ID]; ok {
			copies++
			if f.Seq != p.Seq {
				run.Violation("e2e:copy-renumbered", fmt.Sprintf("subscriber %s received source packet #%d first as %d and later as %d", who, p.ID, f.Seq, p.Seq), map[string]any{"e2e_session": name, "subscriber": who})
				return
			}
			continue
		}
		first[p.ID] = p
	}
	ids := make([]int, 0, len(first))
	for id := range first {
		ids = append(ids, int(id))
	}
	sort.Ints(ids)
	withheld := 0
	var witness string
	bad := 0
	for k := 1; k < len(ids); k++ {
		a, b := first[uint32(ids[k-1])], first[uint32(ids[k])]
		withheld += ids[k] - ids[k-1] - 1
		if b.Seq-a.Seq != 1 {
			bad++
			if witness == "" {
				witness = fmt.Sprintf("source #%d was forwarded as %d and the next forwarded source #%d as %d (%d packets withheld in between): not consecutive", ids[k-1], a.Seq, ids[k], b.Seq, ids[k]-ids[k-1]-1)
			}
		}
	}
	run.Eval(int64(len(ids)))
	if bad > 0 {
		if res.UDPErrors != 0 {
			run.Count("e2e_streams_discarded_udp_errors", 1)
			return
		}
		run.Violation("e2e:forwarded-numbers-not-consecutive", fmt.Sprintf("subscriber %s: %s (%d such places, kernel UDP error counters did not move)", who, witness, bad), map[string]any{"e2e_session": name, "subscriber": who, "received": len(ids), "withheld": withheld})
		return
	}
	run.Count("e2e_streams_gap_free", 1)
	run.Count("e2e_packets_checked", int64(len(ids)))
	run.Count("e2e_withheld_by_server", int64(withheld))
	run.Count("e2e_later_copies_same_number", int64(copies))
	if who == "B" {
		run.Count("e2e_late_joiner_streams", 1)
	}
	run.Distinct(fmt.Sprintf("e2e %s withheld%v copies%v", who, withheld > 0, copies > 0))
}

func e2eTier(run *vk.Run) {
	batches := run.Pick(1, 10)
	sessions := run.Pick(6, 10)
	packets := run.Pick(3600, 6000)
	var wg sync.WaitGroup
	sem := make(chan struct{}, 2)
	for b := 0; b < batches; b++ {
		wg.Add(1)
		sem <- struct{}{}
		go func(b int) {
			defer wg.Done()
			defer func() { <-sem }()
			res := run.RunChild("e2e", e2eArgs{Index: uint64(b), Sessions: sessions, Packets: packets}, 10*time.Minute)
			switch {
			case strings.HasPrefix(res.Crash, "harness-crash:"):
				run.Inconclusive("e2e: harness crashed: " + res.Crash + "\n" + res.CrashText)
			case res.Crash != "":
				run.Violation("e2e:server-crashed:"+res.Crash, "the server died in the end-to-end tier: "+res.Crash, map[string]any{"e2e_batch": b, "crash": res.CrashText})
			case res.TimedOut:
				run.Inconclusive("e2e: watchdog fired")
			}
		}(b)
	}
	wg.Wait()
	run.FloorCounter("e2e_streams_gap_free", int64(batches*sessions))
	run.FloorCounter("e2e_withheld_by_server", 100)
	run.FloorCounter("e2e_late_joiner_streams", int64(batches*sessions/3))
	run.Assume("end-to-end tier: nothing is lost upstream (publisher sends every number), so an id a subscriber did not receive was withheld by the server; kernel UDP error counters are sampled around each session and a discrepancy is discarded if they moved")
}
