package main

// End-to-end tier of C01: real server, real PeerConnections (see vmedia).  The server's
// down tracks report every packet they withhold (successful packetmap.Drop, trace point
// under the verif tag).  For any two received source packets the forwarded numbers must
// differ by the source distance minus the number of packets withheld in between, a
// withheld packet is never received, and later copies of an id carry the same number.
// Ids that were neither received nor withheld were lost (kernel, pion, or the server's
// congested writer, which galene treats like network loss) and leave their gap.

import (
	"fmt"
	"os"
	"sort"
	"strings"
	"sync"
	"time"

	"verif/harness/vk"
	"verif/harness/vmedia"
	"verif/harness/vsrv"
)

type e2eArgs struct {
	Index    uint64 `json:"index"`
	Sessions int    `json:"sessions"`
	Packets  int    `json:"packets"`
}

func e2eChild() {
	run := vk.Start("C01")
	var a e2eArgs
	vk.ChildArgs(&a)
	srv, err := vsrv.Start(vsrv.Config{Root: os.Getenv("VERIF_CHILD_DIR"), LogToFile: true})
	if err != nil {
		run.Inconclusive("server start: " + err.Error())
		os.Exit(0)
	}
	var wg sync.WaitGroup
	for s := 0; s < a.Sessions; s++ {
		wg.Add(1)
		go func(s int) {
			defer wg.Done()
			name := fmt.Sprintf("%d-%d", a.Index, s)
			res := vmedia.Run(srv, name, a.Packets, run.Rand(8, a.Index, uint64(s)))
			if !res.OK {
				run.Count("e2e_sessions_not_established", 1)
				run.Note("session " + name + ": " + res.Why)
				return
			}
			judgeE2E(run, name, "A", res.A, res)
			judgeE2E(run, name, "B", res.B, res)
			run.Count("e2e_sessions", 1)
		}(s)
	}
	wg.Wait()
	os.Exit(0)
}

func judgeE2E(run *vk.Run, name, who string, rx []vmedia.Rx, res vmedia.Result) {
	if len(rx) < 100 {
		run.Count("e2e_subscriber_streams_too_short", 1)
		return
	}
	first := map[uint32]vmedia.Rx{}
	copies := 0
	for _, p := range rx {
		if f, ok := first[p.ID]; ok {
			copies++
			if f.Seq != p.Seq {
				run.Violation("e2e:copy-renumbered", fmt.Sprintf("subscriber %s received source packet #%d first as %d and later as %d", who, p.ID, f.Seq, p.Seq), map[string]any{"e2e_session": name, "subscriber": who})
				return
			}
			continue
		}
		first[p.ID] = p
	}
	ids := make([]int, 0, len(first))
	for id := range first {
		ids = append(ids, int(id))
	}
	sort.Ints(ids)
	ssrc := rx[0].SSRC
	for _, p := range rx {
		if p.SSRC != ssrc {
			run.Count("e2e_streams_with_several_ssrcs", 1)
			return
		}
	}
	// the server's own record of what it withheld from this down track
	w := res.Withheld(ssrc)
	for _, id := range ids {
		if w[id] {
			run.Violation("e2e:withheld-packet-forwarded", fmt.Sprintf("subscriber %s received source packet #%d as %d although the server had withheld it from this receiver", who, id, first[uint32(id)].Seq), map[string]any{"e2e_session": name, "subscriber": who})
			return
		}
	}
	withheld, lost := 0, 0
	for k := 1; k < len(ids); k++ {
		a, b := first[uint32(ids[k-1])], first[uint32(ids[k])]
		wh := 0
		for id := ids[k-1] + 1; id < ids[k]; id++ {
			if w[id] {
				wh++
			}
		}
		withheld += wh
		lost += ids[k] - ids[k-1] - 1 - wh
		if int(b.Seq-a.Seq) != ids[k]-ids[k-1]-wh {
			run.Violation("e2e:forwarded-number-not-source-minus-withheld", fmt.Sprintf("subscriber %s: source #%d was forwarded as %d and source #%d as %d; the server withheld %d of the %d packets in between, so the numbers should differ by %d", who, ids[k-1], a.Seq, ids[k], b.Seq, wh, ids[k]-ids[k-1]-1, ids[k]-ids[k-1]-wh), map[string]any{"e2e_session": name, "subscriber": who, "received": len(ids)})
			return
		}
	}
	run.Eval(int64(len(ids)))
	run.Count("e2e_lost_not_withheld", int64(lost))
	run.Count("e2e_streams_gap_free", 1)
	run.Count("e2e_packets_checked", int64(len(ids)))
	run.Count("e2e_withheld_by_server", int64(withheld))
	run.Count("e2e_later_copies_same_number", int64(copies))
	if who == "B" {
		run.Count("e2e_late_joiner_streams", 1)
	}
	run.Distinct(fmt.Sprintf("e2e %s withheld%v copies%v", who, withheld > 0, copies > 0))
}

func e2eTier(run *vk.Run) {
	batches := run.Pick(1, 10)
	sessions := run.Pick(6, 10)
	packets := run.Pick(3600, 6000)
	var wg sync.WaitGroup
	sem := make(chan struct{}, 2)
	for b := 0; b < batches; b++ {
		wg.Add(1)
		sem <- struct{}{}
		go func(b int) {
			defer wg.Done()
			defer func() { <-sem }()
			res := run.RunChild("e2e", e2eArgs{Index: uint64(b), Sessions: sessions, Packets: packets}, 10*time.Minute)
			switch {
			case strings.HasPrefix(res.Crash, "harness-crash:"):
				run.Inconclusive("e2e: harness crashed: " + res.Crash + "\n" + res.CrashText)
			case res.Crash != "":
				run.Violation("e2e:server-crashed:"+res.Crash, "the server died in the end-to-end tier: "+res.Crash, map[string]any{"e2e_batch": b, "crash": res.CrashText})
			case res.TimedOut:
				run.Inconclusive("e2e: watchdog fired")
			}
		}(b)
	}
	wg.Wait()
	run.FloorCounter("e2e_streams_gap_free", int64(batches*sessions))
	run.FloorCounter("e2e_withheld_by_server", 100)
	run.FloorCounter("e2e_late_joiner_streams", int64(batches*sessions/3))
	run.Assume("end-to-end tier: the set of packets a down track deliberately withheld is what its successful packetmap.Drop calls report through the verif trace point")
}
