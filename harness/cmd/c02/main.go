// C02 - forwarding rewrites only seqno, marker and the VP8 picture id; ids stay consecutive.
//
// Events: (input bytes, output bytes) pairs at the down track's bound write stream, with
// in-order arrival and whole-frame drops caused by the real temporal/spatial layer
// selection; plus codecs.RewritePacket called directly.  Both sides are parsed with pion's
// RTP and VP8/VP9 depacketisers (independent of galene/codecs).
package main

import (
	"bytes"
	"encoding/binary"
	"fmt"
	"math/rand/v2"
	"runtime"
	"sync"
	"sync/atomic"

	gcodecs "github.com/jech/galene/codecs"
	"github.com/jech/galene/packetcache"

	"verif/harness/vdown"
	"verif/harness/vk"
)

func pidMask(bits int) uint16 {
	if bits == 15 {
		return 0x7FFF
	}
	return 0x7F
}

// diffOutsidePid compares two RTP payloads byte by byte, ignoring the value bits of the
// picture-id field (the M bit must be preserved).
func diffOutsidePid(in, out *vdown.Parsed) string {
	a, b := in.Payload, out.Payload
	if len(a) != len(b) {
		return fmt.Sprintf("payload length %d -> %d", len(a), len(b))
	}
	for i := range a {
		if a[i] == b[i] {
			continue
		}
		if in.HasPid && in.PidOff >= 0 {
			if in.PidBits == 15 && (i == in.PidOff || i == in.PidOff+1) {
				if i == in.PidOff && (a[i]&0x80) != (b[i]&0x80) {
					return "M bit of the picture id changed"
				}
				continue
			}
			if in.PidBits == 7 && i == in.PidOff {
				if (a[i] & 0x80) != (b[i] & 0x80) {
					return "M bit of the picture id changed"
				}
				continue
			}
		}
		return fmt.Sprintf("payload byte %d changed %#x -> %#x", i, a[i], b[i])
	}
	return ""
}

func headerDiff(in, out *vdown.Parsed) string {
	a, b := in.Header, out.Header
	if a.Timestamp != b.Timestamp {
		return fmt.Sprintf("timestamp %d -> %d", a.Timestamp, b.Timestamp)
	}
	if a.Version != b.Version || a.Padding != b.Padding || a.Extension != b.Extension {
		return "version/padding/extension bits changed"
	}
	if len(a.CSRC) != len(b.CSRC) {
		return fmt.Sprintf("CSRC count %d -> %d", len(a.CSRC), len(b.CSRC))
	}
	for i := range a.CSRC {
		if a.CSRC[i] != b.CSRC[i] {
			return "CSRC changed"
		}
	}
	if b.SSRC != vdown.BindSSRC || b.PayloadType != vdown.BindPT {
		return fmt.Sprintf("SSRC/PT are not the binding's: %#x/%d", b.SSRC, b.PayloadType)
	}
	if a.Marker && !b.Marker {
		return "marker bit cleared"
	}
	return ""
}

type shape struct {
	codec           vdown.Codec
	pidBits         int
	l, k, noT       bool
	csrcs           int
	flexible        bool
	slayers         int
	pattern         int
	framesWithheld  int
	framesAfterDrop int
	markerSet       int
	pidWrapped      bool
}

func runHistory(run *vk.Run, idx uint64) {
	r := run.Rand(1, idx)
	var codec vdown.Codec
	switch x := r.IntN(10); {
	case x < 6:
		codec = vdown.VP8
	case x < 9:
		codec = vdown.VP9
	default:
		codec = vdown.Opaque
	}
	cfg := &vdown.StreamCfg{Codec: codec, StartSeq: uint16(r.UintN(65536)), StartTS: uint32(r.Uint64()),
		CSRCs: []int{0, 0, 1, 3}[r.IntN(4)], MaxPktsPerFrame: 1 + r.IntN(5), MaxFill: []int{0, 30, 1100}[r.IntN(3)],
		Pictures: 80 + r.IntN(200), UpSyncProb: 0.6, KeyEvery: []int{0, 15, 40}[r.IntN(3)]}
	if idx%3 == 1 {
		// packets as large as the server's packet buffers (packetcache.BufSize)
		cfg.MaxTotal = packetcache.BufSize
	}
	pat := 1 + r.IntN(3)
	cfg.TPattern = vdown.TemporalPatterns[pat]
	if r.IntN(6) == 0 {
		cfg.TPattern = nil
		cfg.TMax = 2
	}
	switch codec {
	case vdown.VP8:
		cfg.PidBits = []int{0, 7, 15, 7, 15}[r.IntN(5)]
		cfg.VP8L = r.IntN(2) == 0
		cfg.VP8K = r.IntN(2) == 0
		cfg.VP8NoT = r.IntN(8) == 0
		switch r.IntN(4) {
		case 0:
			cfg.StartPid = pidMask(cfg.PidBits) - uint16(r.IntN(6)) // wrap soon
		default:
			cfg.StartPid = uint16(r.UintN(32768))
		}
	case vdown.VP9:
		cfg.PidBits = []int{0, 7, 15}[r.IntN(3)]
		cfg.Flexible = r.IntN(2) == 0
		cfg.SLayers = 1 + r.IntN(3)
		cfg.ZProb = 0.15
		cfg.StartPid = uint16(r.UintN(32768))
		cfg.KeyEvery = []int{10, 15, 25}[r.IntN(3)]
	}
	src := vdown.Generate(cfg, r)
	for _, p := range src[:min(len(src), 12)] {
		if err := vdown.SelfCheck(codec, p); err != nil {
			run.Inconclusive("harness self-check: " + err.Error())
			return
		}
	}
	// a publisher restart: from some picture on, the source sequence numbers continue more
	// than 8192 away (in either direction): the forwarder re-synchronises there, and the
	// count of withheld frames starts again
	jumpAt := -1
	if r.IntN(4) == 0 && len(src) > 60 {
		b := len(src)/5 + r.IntN(len(src)*3/5)
		for b < len(src) && (b == 0 || src[b].Pic == src[b-1].Pic) {
			b++
		}
		if b < len(src) {
			jump := 8193 + r.IntN(65536-2*8193)
			for _, p := range src[b:] {
				p.Ext += int64(jump)
				binary.BigEndian.PutUint16(p.Bytes[2:4], p.Seqno())
			}
			jumpAt = b
		}
	}
	w := vdown.NewWorld(codec, 256)
	var trail []string
	fail := func(key, what string) {
		n := len(trail)
		run.Violation(key, what, map[string]any{"index": idx, "codec": codec.Mime(), "cfg": fmt.Sprintf("%+v", *cfg), "trail": trail[max(0, n-50):]})
	}
	// picture bookkeeping (in-order arrival => a picture is complete when the next one starts)
	type picState struct{ sent, fwd int }
	pics := map[int]*picState{}
	withheldPics := 0 // pictures wholly withheld so far (closed ones)
	sh := shape{codec: codec, pidBits: cfg.PidBits, l: cfg.VP8L, k: cfg.VP8K, noT: cfg.VP8NoT, csrcs: cfg.CSRCs, flexible: cfg.Flexible, slayers: cfg.SLayers, pattern: pat}
	nextSwitch := 8 + r.IntN(30)
	curPic := -1
	sawDrop := false
	for k, p := range src {
		if k == nextSwitch {
			if r.IntN(5) < 3 {
				w.SwitchDown()
				trail = append(trail, "switch-down")
			} else {
				w.SwitchUp()
				trail = append(trail, "switch-up")
			}
			nextSwitch = k + 10 + r.IntN(60)
		}
		if p.Pic != curPic {
			if st := pics[curPic]; st != nil && st.fwd == 0 {
				withheldPics++
				sh.framesWithheld++
				sawDrop = true
			}
			curPic = p.Pic
			pics[curPic] = &picState{}
		}
		if k == jumpAt {
			trail = append(trail, "source sequence numbers jump (publisher restart)")
			withheldPics = 0
			run.Count("histories_with_resynchronisation", 1)
		}
		st := pics[curPic]
		st.sent++
		outs, _, err := w.Deliver(p)
		run.Eval(1)
		lay := w.D.Layer()
		trail = append(trail, fmt.Sprintf("%v -> %d out (layer s%d t%d)", p, len(outs), lay.Sid, lay.Tid))
		if err != nil {
			fail("write-error", fmt.Sprintf("Write returned %v for %v", err, p))
			return
		}
		if w.InputModified > 0 {
			fail("input-buffer-modified", fmt.Sprintf("Write altered the caller's buffer for %v (rewrite must happen on a copy)", p))
			return
		}
		if len(outs) == 0 {
			continue
		}
		if len(outs) > 1 {
			fail("multiple-outputs", fmt.Sprintf("%d outputs for %v", len(outs), p))
			return
		}
		st.fwd++
		out := outs[0]
		if len(p.Bytes) > 1500 {
			run.Count("forwarded_packets_larger_than_1500_bytes", 1)
		}
		if len(out.Raw) != len(p.Bytes) {
			fail("length-changed", fmt.Sprintf("%v: length %d -> %d", p, len(p.Bytes), len(out.Raw)))
			return
		}
		in, err1 := vdown.Parse(codec, p.Bytes)
		o, err2 := vdown.Parse(codec, out.Raw)
		if err1 != nil || err2 != nil {
			fail("output-unparsable", fmt.Sprintf("%v: pion parse errors in=%v out=%v", p, err1, err2))
			return
		}
		if d := headerDiff(in, o); d != "" {
			fail("header-changed", fmt.Sprintf("%v: %s", p, d))
			return
		}
		if d := diffOutsidePid(in, o); d != "" {
			fail("payload-changed", fmt.Sprintf("%v: %s", p, d))
			return
		}
		if codec != vdown.VP8 && in.HasPid && in.Pid != o.Pid {
			fail("non-vp8-pid-changed", fmt.Sprintf("%v: picture id %d -> %d for a codec other than VP8", p, in.Pid, o.Pid))
			return
		}
		if !in.Header.Marker && o.Header.Marker {
			if codec != vdown.VP9 || !p.End || p.Sid != lay.Sid {
				fail("marker-set-illegally", fmt.Sprintf("%v: marker set although not the last packet of a frame of the highest forwarded spatial layer (current sid %d)", p, lay.Sid))
				return
			}
			sh.markerSet++
			run.Count("markers_set_on_spatial_layer_end", 1)
		}
		if codec == vdown.VP8 && in.HasPid {
			want := (in.Pid - uint16(withheldPics)) & pidMask(in.PidBits)
			if o.Pid != want {
				fail(fmt.Sprintf("vp8-picture-id:%dbit", in.PidBits), fmt.Sprintf("%v: forwarded picture id %d, want %d = source %d minus %d wholly withheld frames before it", p, o.Pid, want, in.Pid, withheldPics))
				return
			}
			if o.PidBits != in.PidBits {
				fail("vp8-picture-id-width", fmt.Sprintf("%v: picture id width %d -> %d", p, in.PidBits, o.PidBits))
				return
			}
			if sawDrop {
				sh.framesAfterDrop++
				run.Count("vp8_frames_checked_after_a_withheld_frame", 1)
			}
			if in.Pid < uint16(withheldPics) || (p.Pid == 0 && p.Pic > 0) {
				sh.pidWrapped = true
			}
		}
		run.Count("pairs_compared", 1)
	}
	run.Count("histories", 1)
	run.Count("frames_wholly_withheld", int64(sh.framesWithheld))
	if (sh.framesWithheld > 0 && sh.framesAfterDrop > 0) || sh.markerSet > 0 {
		run.Distinct(fmt.Sprintf("%d pid%d L%v K%v noT%v csrc%d flex%v sl%d pat%d wrap%v mk%v", codec, sh.pidBits, sh.l, sh.k, sh.noT, sh.csrcs, sh.flexible, sh.slayers, sh.pattern, sh.pidWrapped, sh.markerSet > 0))
	}
	if sh.pidWrapped && sh.framesWithheld > 0 {
		run.Count("histories_with_pid_wrap_after_drop", 1)
	}
	if idx < 2 {
		run.Sample(map[string]any{"index": idx, "codec": codec.Mime(), "pid_bits": cfg.PidBits, "frames_withheld": sh.framesWithheld, "trail_head": trail[:min(len(trail), 14)]})
	}
}

// direct calls of codecs.RewritePacket: nothing but bytes 1 (marker bit), 2, 3 and the
// VP8 picture-id value bits may change, and the length never does.
func runRewrite(run *vk.Run, idx uint64) {
	r := run.Rand(2, idx)
	codec := []vdown.Codec{vdown.VP8, vdown.VP8, vdown.VP9, vdown.Opaque}[r.IntN(4)]
	names := map[vdown.Codec][]string{vdown.VP8: {"video/VP8", "video/vp8"}, vdown.VP9: {"video/VP9"}, vdown.Opaque: {"audio/opus", "video/H264", "video/AV1", "video/unknown", ""}}
	name := names[codec][r.IntN(len(names[codec]))]
	cfg := &vdown.StreamCfg{Codec: codec, StartSeq: uint16(r.UintN(65536)), PidBits: []int{0, 7, 15}[r.IntN(3)], StartPid: uint16(r.UintN(32768)),
		CSRCs: r.IntN(4), VP8L: r.IntN(2) == 0, VP8K: r.IntN(2) == 0, VP8NoT: r.IntN(4) == 0, Flexible: r.IntN(2) == 0, SLayers: 1 + r.IntN(2),
		TPattern: vdown.TemporalPatterns[r.IntN(4)], MaxPktsPerFrame: 2, MaxFill: 20, Pictures: 6}
	src := vdown.Generate(cfg, r)
	for _, p := range src {
		delta := uint16(r.UintN(65536))
		switch r.IntN(4) {
		case 0:
			delta = 0
		case 1:
			delta = uint16(r.IntN(4))
		case 2:
			delta = -uint16(r.IntN(4))
		}
		setMarker := r.IntN(2) == 0
		seqno := uint16(r.UintN(65536))
		data := append([]byte(nil), p.Bytes...)
		err := gcodecs.RewritePacket(name, data, setMarker, seqno, delta)
		run.Eval(1)
		if err != nil {
			run.Violation("rewrite:error-on-wellformed", fmt.Sprintf("RewritePacket(%q) failed on a well-formed packet: %v", name, err), map[string]any{"rewrite_index": idx, "packet": fmt.Sprintf("%x", p.Bytes)})
			return
		}
		if len(data) != len(p.Bytes) {
			run.Violation("rewrite:length", "RewritePacket changed the length", map[string]any{"rewrite_index": idx})
			return
		}
		in, _ := vdown.Parse(codec, p.Bytes)
		for i := range data {
			if data[i] == p.Bytes[i] {
				continue
			}
			ok := i == 2 || i == 3 || (i == 1 && (data[i]^p.Bytes[i]) == 0x80 && setMarker && data[i]&0x80 != 0)
			if !ok && codec == vdown.VP8 && in != nil && in.HasPid {
				off := len(p.Bytes) - len(in.Payload) + in.PidOff
				if in.PidBits == 15 && (i == off || i == off+1) {
					ok = i != off || (data[i]&0x80) == (p.Bytes[i]&0x80)
				} else if in.PidBits == 7 && i == off {
					ok = (data[i] & 0x80) == (p.Bytes[i] & 0x80)
				}
			}
			if !ok {
				run.Violation("rewrite:touches-other-bytes:"+codec.Mime(), fmt.Sprintf("RewritePacket(%q, delta=%d) changed byte %d (%#x -> %#x) of %v", name, delta, i, p.Bytes[i], data[i], p), map[string]any{"rewrite_index": idx, "packet": fmt.Sprintf("%x", p.Bytes)})
				return
			}
		}
		if data[2] != byte(seqno>>8) || data[3] != byte(seqno) {
			run.Violation("rewrite:seqno", "RewritePacket did not store the given seqno", map[string]any{"rewrite_index": idx})
			return
		}
		run.Count("rewrite_calls_compared", 1)
	}
	_ = bytes.Equal
}

func main() {
	if _, ok := vk.InChild(); ok {
		e2eChild()
	}
	run := vk.Start("C02")
	if rep, ok := vk.ReplayInput(); ok {
		m, _ := rep["replay"].(map[string]any)
		if v, ok := m["index"].(float64); ok {
			runHistory(run, uint64(v))
		}
		if v, ok := m["rewrite_index"].(float64); ok {
			runRewrite(run, uint64(v))
		}
		run.Finish("exploration", "replay of one recorded case")
	}
	n := run.Pick(1200, 80000)
	nr := run.Pick(20000, 2000000)
	var next atomic.Uint64
	var wg sync.WaitGroup
	for wk := 0; wk < runtime.GOMAXPROCS(0); wk++ {
		wg.Add(1)
		go func() {
			defer wg.Done()
			for {
				i := next.Add(1) - 1
				if i >= uint64(n+nr) {
					return
				}
				if i < uint64(n) {
					runHistory(run, i)
				} else {
					runRewrite(run, i-uint64(n))
				}
			}
		}()
	}
	wg.Wait()
	_ = rand.IntN
	e2eTier(run)
	run.FloorCounter("pairs_compared", 10000)
	run.FloorCounter("frames_wholly_withheld", 500)
	run.FloorCounter("vp8_frames_checked_after_a_withheld_frame", 1000)
	run.FloorCounter("markers_set_on_spatial_layer_end", 20)
	run.FloorCounter("histories_with_pid_wrap_after_drop", 5)
	run.FloorCounter("forwarded_packets_larger_than_1500_bytes", 100)
	run.FloorCounter("rewrite_calls_compared", 10000)
	run.Assume("in-order arrival (the property's scope for picture ids); session-level fields SSRC and payload type are compared against the binding's values")
	run.Assume("verif export shim of rtpconn + capturing write stream bound to the real TrackLocalStaticRTP; pion depacketisers as independent parsers")
	run.Finish("exploration", "id-tagged VP8 (all X/I/L/T/K shapes, 7/15-bit ids incl. wrap, 0-3 CSRCs), VP9 (flexible/non-flexible, 1-3 spatial layers) and opaque-codec streams, 1-5 packets per frame, through the real rtpDownTrack.Write with REMB-driven layer switches; input/output pairs diffed field by field; picture ids checked against source id minus wholly withheld frames; plus direct RewritePacket calls with all deltas; plus an end-to-end tier (real server, SRTP, pion subscribers incl. a late joiner, REMB-driven temporal layer drops, 15-bit picture id wrap) judged against the server's own record of withheld frames; distinct_nontrivial = distinct descriptor/layer shapes among histories where a whole frame was withheld and later frames forwarded, or a marker was set")
}
