package main

// End-to-end tier of C02: real server, real PeerConnections over SRTP (see vmedia).
// Every packet a subscriber received is compared with the packet the publisher sent under
// that id: same timestamp, same payload length, same payload bytes outside the VP8
// picture-id field, marker never cleared.  The server's down tracks report which packets
// they withheld (trace point under the verif tag; all frames are single packets, so a
// withheld packet is a withheld frame): between two received frames the picture ids must
// differ by the source distance minus the frames withheld in between (mod 2^15), whatever
// was lost in transit.

import (
	"fmt"
	"os"
	"sort"
	"strings"
	"sync"
	"time"

	"verif/harness/vk"
	"verif/harness/vmedia"
	"verif/harness/vrtc"
	"verif/harness/vsrv"
)

type e2eArgs struct {
	Index    uint64 `json:"index"`
	Sessions int    `json:"sessions"`
	Packets  int    `json:"packets"`
}

func e2eChild() {
	run := vk.Start("C02")
	var a e2eArgs
	vk.ChildArgs(&a)
	srv, err := vsrv.Start(vsrv.Config{Root: os.Getenv("VERIF_CHILD_DIR"), LogToFile: true})
	if err != nil {
		run.Inconclusive("server start: " + err.Error())
		os.Exit(0)
	}
	var wg sync.WaitGroup
	for s := 0; s < a.Sessions; s++ {
		wg.Add(1)
		go func(s int) {
			defer wg.Done()
			name := fmt.Sprintf("%d-%d", a.Index, s)
			res := vmedia.Run(srv, name, a.Packets, run.Rand(8, a.Index, uint64(s)))
			if !res.OK {
				run.Count("e2e_sessions_not_established", 1)
				run.Note("session " + name + ": " + res.Why)
				return
			}
			judgeE2E(run, name, "A", res.A, res)
			judgeE2E(run, name, "B", res.B, res)
			run.Count("e2e_sessions", 1)
			run.Count("e2e_source_packets_with_header_extension_and_padding", int64(res.ExtPadded))
		}(s)
	}
	wg.Wait()
	os.Exit(0)
}

func judgeE2E(run *vk.Run, name, who string, rx []vmedia.Rx, res vmedia.Result) {
	if len(rx) < 100 {
		run.Count("e2e_subscriber_streams_too_short", 1)
		return
	}
	rep := map[string]any{"e2e_session": name, "subscriber": who}
	first := map[int]vmedia.Rx{}
	for _, p := range rx {
		if p.SSRC != rx[0].SSRC {
			run.Count("e2e_streams_with_several_ssrcs", 1)
			return
		}
		id := int(p.ID)
		if id >= res.Sent {
			run.Violation("e2e:payload-changed:id", fmt.Sprintf("subscriber %s received a packet tagged #%d, the publisher sent only %d", who, id, res.Sent), rep)
			return
		}
		src := res.Source(id)
		run.Eval(1)
		if p.TS != src.Timestamp {
			run.Violation("e2e:timestamp-changed", fmt.Sprintf("subscriber %s: source #%d was sent with timestamp %d and received with %d", who, id, src.Timestamp, p.TS), rep)
			return
		}
		if len(p.Raw) != len(src.Payload) {
			run.Violation("e2e:length-changed", fmt.Sprintf("subscriber %s: source #%d was sent with %d payload bytes and received with %d", who, id, len(src.Payload), len(p.Raw)), rep)
			return
		}
		for k := range src.Payload {
			if k == 2 || k == 3 {
				continue // the 15-bit picture id
			}
			if p.Raw[k] != src.Payload[k] {
				run.Violation("e2e:payload-changed:outside-picture-id", fmt.Sprintf("subscriber %s: source #%d byte %d of the payload was %#02x and is received as %#02x", who, id, k, src.Payload[k], p.Raw[k]), rep)
				return
			}
		}
		if p.Raw[2]&0x80 == 0 {
			run.Violation("e2e:payload-changed:picture-id-width", fmt.Sprintf("subscriber %s: source #%d lost the M bit of its 15-bit picture id", who, id), rep)
			return
		}
		if src.Marker && !p.Marker {
			run.Violation("e2e:marker-cleared", fmt.Sprintf("subscriber %s: source #%d was sent with the marker bit and received without", who, id), rep)
			return
		}
		if _, ok := first[id]; !ok {
			first[id] = p
			if vmedia.ExtPadded(id) {
				run.Count("e2e_received_intact_though_sent_with_extension_and_padding", 1)
			}
		}
	}
	ids := make([]int, 0, len(first))
	for id := range first {
		ids = append(ids, id)
	}
	sort.Ints(ids)
	w := res.Withheld(rx[0].SSRC)
	withheld, after := 0, 0
	for k := 1; k < len(ids); k++ {
		a, b := first[ids[k-1]], first[ids[k]]
		wh := 0
		for id := ids[k-1] + 1; id < ids[k]; id++ {
			if w[id] {
				wh++
			}
		}
		withheld += wh
		want := (ids[k] - ids[k-1] - wh) & 0x7FFF
		if got := int(b.Pid-a.Pid) & 0x7FFF; got != want {
			run.Violation("e2e:picture-id-not-source-minus-withheld", fmt.Sprintf("subscriber %s: frames #%d and #%d were received with picture ids %d and %d; the server withheld %d of the %d frames in between, so the ids should differ by %d", who, ids[k-1], ids[k], a.Pid, b.Pid, wh, ids[k]-ids[k-1]-1, want), rep)
			return
		}
		if withheld > 0 {
			after++
		}
	}
	run.Count("e2e_packets_compared", int64(len(rx)))
	run.Count("e2e_frames_withheld", int64(withheld))
	run.Count("e2e_frames_checked_after_a_withheld_frame", int64(after))
	run.Count("e2e_streams_clean", 1)
	run.Distinct(fmt.Sprintf("e2e %s withheld%v wrap%v", who, withheld > 0, int(res.PidStart)+res.Sent > 0x7FFF))
}

func e2eTier(run *vk.Run) {
	batches := run.Pick(1, 8)
	sessions := run.Pick(6, 10)
	packets := run.Pick(3600, 6000)
	var wg sync.WaitGroup
	sem := make(chan struct{}, 2)
	for b := 0; b < batches; b++ {
		wg.Add(1)
		sem <- struct{}{}
		go func(b int) {
			defer wg.Done()
			defer func() { <-sem }()
			res := run.RunChild("e2e", e2eArgs{Index: uint64(b), Sessions: sessions, Packets: packets}, 10*time.Minute)
			switch {
			case strings.HasPrefix(res.Crash, "harness-crash:"):
				run.Inconclusive("e2e: harness crashed: " + res.Crash + "\n" + res.CrashText)
			case res.Crash != "":
				run.Violation("e2e:server-crashed:"+res.Crash, "the server died in the end-to-end tier: "+res.Crash, map[string]any{"e2e_batch": b, "crash": res.CrashText})
			case res.TimedOut:
				run.Inconclusive("e2e: watchdog fired")
			}
		}(b)
	}
	wg.Wait()
	run.FloorCounter("e2e_streams_clean", int64(batches*sessions))
	run.FloorCounter("e2e_frames_checked_after_a_withheld_frame", 1000)
	run.FloorCounter("e2e_source_packets_with_header_extension_and_padding", 100)
	run.FloorCounter("e2e_received_intact_though_sent_with_extension_and_padding", 100)
	run.Assume("end-to-end tier: the set of frames a down track deliberately withheld is what its successful packetmap.Drop calls report through the verif trace point")
	_ = vrtc.IDOf
}
