package main

// End-to-end tier of C03: a real subscriber PeerConnection (no interceptors, SRTP replay
// protection off) sends NACKs for numbers it has received and records what arrives: every
// later copy of an outgoing number must be byte-identical (payload, marker, timestamp) to
// the first copy, and copies may only appear for numbers that were NACKed.

import (
	"fmt"
	"os"
	"strings"
	"sync"
	"time"

	"verif/harness/vk"
	"verif/harness/vmedia"
	"verif/harness/vsrv"
)

type e2eArgs struct {
	Index    uint64 `json:"index"`
	Sessions int    `json:"sessions"`
	Packets  int    `json:"packets"`
}

func e2eChild() {
	run := vk.Start("C03")
	var a e2eArgs
	vk.ChildArgs(&a)
	srv, err := vsrv.Start(vsrv.Config{Root: os.Getenv("VERIF_CHILD_DIR"), LogToFile: true})
	if err != nil {
		run.Inconclusive("server start: " + err.Error())
		os.Exit(0)
	}
	var wg sync.WaitGroup
	for s := 0; s < a.Sessions; s++ {
		wg.Add(1)
		go func(s int) {
			defer wg.Done()
			name := fmt.Sprintf("%d-%d", a.Index, s)
			res := vmedia.Run(srv, name, a.Packets, run.Rand(8, a.Index, uint64(s)))
			if !res.OK {
				run.Count("e2e_sessions_not_established", 1)
				return
			}
			asked := map[uint16]bool{}
			for _, n := range res.NACKed {
				asked[n] = true
			}
			first := map[uint16]vmedia.Rx{}
			answered := map[uint16]bool{}
			for _, p := range res.A {
				f, seen := first[p.Seq]
				if !seen {
					first[p.Seq] = p
					continue
				}
				run.Eval(1)
				rep := map[string]any{"e2e_session": name, "number": p.Seq}
				if f.ID != p.ID {
					run.Violation("e2e:retransmission-differs:source", fmt.Sprintf("number %d first carried source #%d, a later copy carries #%d", p.Seq, f.ID, p.ID), rep)
					return
				}
				if f.Raw != p.Raw || f.TS != p.TS {
					run.Violation("e2e:retransmission-differs:bytes", fmt.Sprintf("a later copy of number %d (source #%d) differs from the first transmission in payload or timestamp (picture id %d -> %d)", p.Seq, p.ID, f.Pid, p.Pid), rep)
					return
				}
				if f.Marker != p.Marker {
					run.Violation("e2e:retransmission-differs:marker", fmt.Sprintf("a later copy of number %d has marker %v, the first transmission had %v", p.Seq, p.Marker, f.Marker), rep)
					return
				}
				if !asked[p.Seq] {
					run.Violation("e2e:unrequested-copy", fmt.Sprintf("number %d arrived twice although it was never NACKed", p.Seq), rep)
					return
				}
				answered[p.Seq] = true
			}
			run.Count("e2e_nacks_sent", int64(len(asked)))
			run.Count("e2e_nacks_answered_identically", int64(len(answered)))
			run.Count("e2e_sessions", 1)
			run.Distinct(fmt.Sprintf("e2e answered%d", len(answered)))
		}(s)
	}
	wg.Wait()
	os.Exit(0)
}

func e2eTier(run *vk.Run) {
	batches := run.Pick(1, 10)
	sessions := run.Pick(6, 10)
	packets := run.Pick(3000, 6000)
	var wg sync.WaitGroup
	sem := make(chan struct{}, 2)
	for b := 0; b < batches; b++ {
		wg.Add(1)
		sem <- struct{}{}
		go func(b int) {
			defer wg.Done()
			defer func() { <-sem }()
			res := run.RunChild("e2e", e2eArgs{Index: uint64(b), Sessions: sessions, Packets: packets}, 10*time.Minute)
			switch {
			case strings.HasPrefix(res.Crash, "harness-crash:"):
				run.Inconclusive("e2e: harness crashed: " + res.Crash + "\n" + res.CrashText)
			case res.Crash != "":
				run.Violation("e2e:server-crashed:"+res.Crash, "the server died in the end-to-end tier: "+res.Crash, map[string]any{"e2e_batch": b, "crash": res.CrashText})
			case res.TimedOut:
				run.Inconclusive("e2e: watchdog fired")
			}
		}(b)
	}
	wg.Wait()
	run.FloorCounter("e2e_nacks_answered_identically", int64(batches*sessions))
	run.Assume("end-to-end tier: the subscriber's PeerConnection has no interceptors and SRTP replay protection is disabled, so retransmitted copies are visible to the harness")
}
