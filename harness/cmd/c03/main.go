// C03 - a NACK retransmits exactly the packet originally sent under that number, or nothing.
//
// Log A: every (outgoing seqno -> bytes, source id) first written by the down track.
// Log B: the packets written in response to each injected rtcp.TransportLayerNack.
// Oracle: every packet of B carries one of the NACKed numbers and is byte-identical to
// A's entry for that number; nothing is ever sent for a number A does not hold (never
// sent, or a withheld packet - those have no outgoing number).  "Nothing" is always fine,
// but recent cached numbers must be answered in the run as a whole (non-vacuity floor).
// The pure tier checks Map.Reverse against Map.Map on generated histories.
package main

import (
	"fmt"
	"runtime"
	"sync"
	"sync/atomic"

	"github.com/pion/rtcp"

	"github.com/jech/galene/packetmap"

	"verif/harness/vdown"
	"verif/harness/vk"
)

// pure tier ------------------------------------------------------------------

func runPure(run *vk.Run, idx uint64, long bool) {
	c := vdown.GenPure(run.Rand(1, idx), long)
	if long && idx%4 == 3 {
		c = vdown.GenPureCycle(run.Rand(1, idx)) // every fourth long history: a full cycle of withheld packets
	}
	var m packetmap.Map
	withheld := map[int]bool{}
	outOf := map[int]uint16{}    // source position -> number handed out
	posOfOut := map[uint16]int{} // number -> latest source position it was handed out for
	hi := -1
	sinceChange := 0
	seq := func(i int) uint16 { return c.Start + uint16(i) }
	fail := func(key, what string, at int) {
		run.Violation(key, what, map[string]any{"pure_index": idx, "long": long, "failed_at_step": at, "start": c.Start, "steps_until_failure": c.Steps[max(0, at-60) : at+1]})
	}
	confirmed, refusedNever := 0, 0
	for k, st := range c.Steps {
		i := st.Idx
		s := seq(i)
		pid := uint16(i / 3)
		if c.NoPid {
			pid = 0
		}
		if st.Drop && m.Drop(s, pid) {
			if i > hi {
				hi = i
			}
			withheld[i] = true
			sinceChange = 0
			continue
		}
		ok, out, _ := m.Map(s, pid)
		if i > hi {
			hi = i
			sinceChange++
		}
		if !ok || withheld[i] {
			continue
		}
		outOf[i] = out
		posOfOut[out] = i
		run.Eval(1)
		// (1) the number just handed out reverses to this source packet, or to nothing
		if rok, rs, _ := m.Reverse(out); rok {
			if rs != s {
				cls := "recent"
				if sinceChange > 32767 {
					cls = "interval>32767"
				}
				fail("pure:reverse-wrong-source:"+cls, fmt.Sprintf("Reverse(%d) = %d, but %d was handed out for source %d", out, rs, out, s), k)
				return
			}
			confirmed++
		}
		if k%5 != 0 {
			continue
		}
		// (2) numbers of recently forwarded packets
		for _, back := range []int{1, 2, 3, 17, 100, 250} {
			j := hi - back
			o, fwd := outOf[j]
			if j < 0 || !fwd || posOfOut[o] != j {
				continue
			}
			if rok, rs, _ := m.Reverse(o); rok {
				if rs != seq(j) {
					fail("pure:reverse-wrong-source:recent", fmt.Sprintf("Reverse(%d) = %d, but that number was handed out for source %d (position %d)", o, rs, seq(j), j), k)
					return
				}
				confirmed++
			}
		}
		// (3) a number never handed out (ahead of the stream) must not name a withheld packet
		for _, ahead := range []uint16{1, 2, 40} {
			o := out + ahead
			if rok, rs, _ := m.Reverse(o); rok {
				pos := hi + int(int16(rs-seq(hi)))
				if pos >= 0 && pos <= hi && withheld[pos] {
					fail("pure:reverse-names-withheld", fmt.Sprintf("Reverse(%d) (never handed out) = %d, a packet that was withheld", o, rs), k)
					return
				}
			} else {
				refusedNever++
			}
		}
	}
	run.Count("pure_reverse_confirmed", int64(confirmed))
	run.Count("pure_reverse_refused_unsent", int64(refusedNever))
}

// direct-drive tier ---------------------------------------------------------------

type sent struct {
	raw []byte
	idx int
	sid uint8 // spatial layer selected for the receiver when this was first sent
}

func runDirect(run *vk.Run, idx uint64) {
	r := run.Rand(2, idx)
	codec := vdown.VP8
	if r.IntN(3) == 0 {
		codec = vdown.VP9
	}
	cfg := &vdown.StreamCfg{Codec: codec, PidBits: []int{0, 7, 15}[r.IntN(3)], StartPid: uint16(r.UintN(32768)),
		StartTS: uint32(r.Uint64()), TPattern: vdown.TemporalPatterns[1+r.IntN(3)], UpSyncProb: 0.5,
		KeyEvery: []int{0, 20, 50}[r.IntN(3)], MaxPktsPerFrame: 1 + r.IntN(4), MaxFill: 60, Pictures: 80 + r.IntN(300)}
	if codec == vdown.VP9 {
		cfg.SLayers = 1 + r.IntN(3)
		cfg.Flexible = r.IntN(2) == 0
		cfg.KeyEvery = []int{10, 20}[r.IntN(2)]
	}
	switch r.IntN(3) {
	case 0:
		cfg.StartSeq = vdown.ForcedStarts[r.IntN(len(vdown.ForcedStarts))]
	case 1:
		cfg.StartSeq = uint16(65536 - 30 - r.IntN(200)) // wrap during the history
	default:
		cfg.StartSeq = uint16(r.UintN(65536))
	}
	src := vdown.Generate(cfg, r)
	dl := vdown.DeliveryCfg{LossProb: []float64{0, 0.03}[r.IntN(2)], DupProb: []float64{0, 0.04}[r.IntN(2)],
		ReorderProb: []float64{0, 0.05, 0.2}[r.IntN(3)], MaxDelay: []int{2, 10, 40}[r.IntN(3)]}
	order := vdown.Schedule(len(src), dl, r)
	cacheCap := []int{16, 64, 128, 600}[r.IntN(4)]
	w := vdown.NewWorld(codec, cacheCap)
	first := map[uint16]sent{} // outgoing number -> first transmission under that number (current cycle)
	var outOrder []uint16
	withheld := map[int]bool{}
	hi := -1
	var trail []string
	answered, unanswered, refusedUnsent := 0, 0, 0
	sawDrop := false
	// fail reports a violation; it returns true if the history must stop (a known finding
	// does not stop it, so that other violations in the same history are still seen)
	fail := func(key, what string) bool {
		n := len(trail)
		return run.Violation(key, what, map[string]any{"direct_index": idx, "codec": codec.Mime(), "start_seq": cfg.StartSeq, "cache": cacheCap, "trail": trail[max(0, n-70):]})
	}
	nack := func(kind string, nums []uint16, pairs []rtcp.NackPair) bool {
		var resp []vdown.Out
		asked := map[uint16]bool{}
		if pairs != nil {
			for _, p := range pairs {
				for _, s := range p.PacketList() {
					asked[s] = true
				}
			}
			resp = w.NACKPairs(pairs)
		} else {
			for _, s := range nums {
				asked[s] = true
			}
			resp = w.NACK(nums)
		}
		run.Eval(1)
		trail = append(trail, fmt.Sprintf("NACK[%s] %d numbers -> %d packets", kind, len(asked), len(resp)))
		got := map[uint16]bool{}
		for _, o := range resp {
			q, err := vdown.Parse(codec, o.Raw)
			if err != nil {
				fail("retransmission-unparsable", fmt.Sprintf("NACK[%s]: response does not parse: %v", kind, err))
				return false
			}
			num := q.Header.SequenceNumber
			if q.Idx >= 0 && q.Idx < len(src) && withheld[q.Idx] {
				fail("retransmits-withheld-packet", fmt.Sprintf("NACK[%s]: response carries source #%d which was withheld from this receiver (sent as %d)", kind, q.Idx, num))
				return false
			}
			if !asked[num] {
				fail("answers-with-other-number:"+kind, fmt.Sprintf("NACK[%s] for %v answered with a packet numbered %d (source #%d)", kind, keys(asked), num, q.Idx))
				return false
			}
			orig, ok := first[num]
			if !ok {
				fail("answers-never-sent-number:"+kind, fmt.Sprintf("NACK[%s]: packet sent for number %d under which nothing was ever forwarded (source #%d)", kind, num, q.Idx))
				return false
			}
			if string(orig.raw) != string(o.Raw) {
				what := "different bytes"
				oq, _ := vdown.Parse(codec, orig.raw)
				switch {
				case oq != nil && oq.Idx != q.Idx:
					what = fmt.Sprintf("a different source packet (#%d instead of #%d)", q.Idx, oq.Idx)
				case oq != nil && oq.Header.Marker != q.Header.Marker:
					what = "a different marker bit"
				case oq != nil && oq.Pid != q.Pid:
					what = fmt.Sprintf("a different picture id (%d instead of %d)", q.Pid, oq.Pid)
				}
				cls := "bytes"
				if oq != nil && oq.Idx == q.Idx && oq.Header.Marker != q.Header.Marker {
					// The same packet, only the marker differs.  For an end-of-frame packet whose
					// source marker is clear, the server derives the marker from the receiver's
					// spatial selection at the time of the Write; if the first transmission is
					// consistent with the selection recorded then, the retransmission can only
					// differ because the selection was different when the NACK was served (it may
					// even change between two packets of one NACK).  Anything else is another defect.
					sp := src[orig.idx]
					cls = "marker:other"
					if codec == vdown.VP9 && sp.End && !sp.Marker && oq.Header.Marker == (orig.sid == sp.Sid) {
						cls = "marker:after-spatial-layer-change"
					}
				} else if oq != nil && oq.Idx == q.Idx && oq.Pid != q.Pid {
					cls = "picture-id"
				} else if oq != nil && oq.Idx != q.Idx {
					cls = "source"
				}
				if fail("retransmission-differs:"+cls, fmt.Sprintf("NACK[%s] for %d answered with %s than originally sent under that number (source %v; spatial layer at first transmission %d, now %d)", kind, num, what, src[orig.idx], orig.sid, w.D.Layer().Sid)) {
					return false
				}
				continue
			}
			got[num] = true
			answered++
		}
		for s := range asked {
			if !got[s] {
				if _, sentBefore := first[s]; sentBefore {
					unanswered++
				} else {
					refusedUnsent++
				}
			}
		}
		return true
	}
	nextEvent := 20 + r.IntN(30)
	for k, i := range order {
		if k == nextEvent {
			nextEvent = k + 5 + r.IntN(40)
			switch e := r.IntN(10); {
			case e < 2:
				w.SwitchDown()
				trail = append(trail, "switch-down")
			case e < 3:
				w.SwitchUp()
				trail = append(trail, "switch-up")
			case e < 4:
				nc := []int{8, 32, 128, 700}[r.IntN(4)]
				if r.IntN(2) == 0 {
					w.Cache.Resize(nc)
				} else {
					w.Cache.ResizeCond(nc)
				}
				trail = append(trail, fmt.Sprintf("cache-resize %d", nc))
			default:
				if len(outOrder) == 0 {
					break
				}
				last := outOrder[len(outOrder)-1]
				ok := true
				switch r.IntN(7) {
				case 0: // recent numbers
					var nums []uint16
					for j := 0; j < 1+r.IntN(8); j++ {
						nums = append(nums, outOrder[len(outOrder)-1-r.IntN(min(len(outOrder), 40))])
					}
					ok = nack("recent", nums, nil)
				case 1: // ahead of the stream: never sent
					ok = nack("ahead", []uint16{last + 1, last + 2, last + uint16(3+r.IntN(300))}, nil)
				case 2: // far behind: never sent or long evicted
					ok = nack("far-behind", []uint16{last - uint16(2000+r.IntN(20000)), last - 32768, last + 32767}, nil)
				case 3: // numbers around positions where something was withheld
					var nums []uint16
					for o, s := range first {
						if withheld[s.idx+1] || withheld[s.idx-1] {
							nums = append(nums, o, o+1, o-1)
							if len(nums) > 12 {
								break
							}
						}
					}
					if len(nums) > 0 {
						ok = nack("withheld-neighbours", nums, nil)
					}
				case 4: // evicted from the cache
					if len(outOrder) > cacheCap+10 {
						ok = nack("evicted", []uint16{outOrder[len(outOrder)-cacheCap-5-r.IntN(5)], outOrder[r.IntN(len(outOrder)-cacheCap)]}, nil)
					}
				case 5: // the same number twice
					n := outOrder[len(outOrder)-1-r.IntN(min(len(outOrder), 10))]
					ok = nack("twice", []uint16{n, n}, nil)
				default: // a full 17-number pair, possibly across the wrap
					ok = nack("pair17", nil, []rtcp.NackPair{{PacketID: last - uint16(r.IntN(20)), LostPackets: 0xFFFF}})
				}
				if !ok {
					return
				}
			}
		}
		p := src[i]
		outs, _, err := w.Deliver(p)
		run.Eval(1)
		if err != nil {
			fail("write-error", fmt.Sprintf("Write returned %v for %v", err, p))
			return
		}
		lay := w.D.Layer()
		trail = append(trail, fmt.Sprintf("%v -> %d out (s%d t%d)", p, len(outs), lay.Sid, lay.Tid))
		if len(outs) == 0 {
			if i > hi {
				withheld[i] = true
				hi = i
				sawDrop = true
			}
			continue
		}
		if i > hi {
			hi = i
		}
		num := outs[0].Header.SequenceNumber
		if old, ok := first[num]; !ok || old.idx != i {
			first[num] = sent{raw: outs[0].Raw, idx: i, sid: lay.Sid}
			outOrder = append(outOrder, num)
		}
	}
	run.Count("direct_histories", 1)
	run.Count("nacks_answered_identically", int64(answered))
	run.Count("nacks_unanswered_for_sent_numbers", int64(unanswered))
	run.Count("nacks_refused_for_unsent_numbers", int64(refusedUnsent))
	if answered > 0 && sawDrop {
		run.Distinct(fmt.Sprintf("c%d pid%d sl%d cache%d loss%v dup%v re%v/%d start%d", codec, cfg.PidBits, cfg.SLayers, cacheCap, dl.LossProb, dl.DupProb, dl.ReorderProb, dl.MaxDelay, cfg.StartSeq>>14))
	}
	if idx < 2 {
		run.Sample(map[string]any{"tier": "direct", "index": idx, "codec": codec.Mime(), "answered": answered, "trail_head": trail[:min(len(trail), 40)]})
	}
}

func keys(m map[uint16]bool) []uint16 {
	var k []uint16
	for s := range m {
		k = append(k, s)
		if len(k) >= 20 {
			break
		}
	}
	return k
}

func main() {
	if _, ok := vk.InChild(); ok {
		e2eChild()
		return
	}
	run := vk.Start("C03")
	if rep, ok := vk.ReplayInput(); ok {
		m, _ := rep["replay"].(map[string]any)
		if v, ok := m["direct_index"].(float64); ok {
			runDirect(run, uint64(v))
		}
		if v, ok := m["pure_index"].(float64); ok {
			long, _ := m["long"].(bool)
			runPure(run, uint64(v), long)
		}
		run.Finish("exploration", "replay of one recorded case")
	}
	nPure := run.Pick(6000, 600000)
	nLong := run.Pick(12, 300)
	nDirect := run.Pick(800, 60000)
	var next atomic.Uint64
	var wg sync.WaitGroup
	for wk := 0; wk < runtime.GOMAXPROCS(0); wk++ {
		wg.Add(1)
		go func() {
			defer wg.Done()
			for {
				i := next.Add(1) - 1
				switch {
				case i < uint64(nPure+nLong):
					runPure(run, i, i >= uint64(nPure))
				case i < uint64(nPure+nLong+nDirect):
					runDirect(run, i-uint64(nPure+nLong))
				default:
					return
				}
			}
		}()
	}
	wg.Wait()
	e2eTier(run)
	run.FloorCounter("pure_reverse_confirmed", 10000)
	run.FloorCounter("nacks_answered_identically", 2000)
	run.FloorCounter("nacks_refused_for_unsent_numbers", 500)
	run.Assume("the publisher's cache is a real packetcache.Cache filled the way the receive loop fills it; every cached packet was also offered to the down track")
	run.Assume("verif export shim of rtpconn (gotNACK, Write) + capturing write stream")
	run.Finish("exploration", "pure: Map.Reverse against Map.Map/Drop on generated histories (loss, duplicates, reordering, wrap, long stable stretches); direct: id-tagged VP8/VP9 streams through the real Write with layer switches and cache resizes, NACK sets of 7 kinds (recent, ahead of the stream, far behind, neighbours of withheld packets, evicted, same number twice, 17-number pairs across the wrap) through the real gotNACK; distinct_nontrivial = distinct (codec, pid width, layers, cache size, delivery, start region) shapes of histories with a withheld packet and an answered NACK")
}
