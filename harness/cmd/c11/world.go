package main

import (
	"encoding/json"
	"fmt"
	"os"
	"runtime"
	"sort"
	"strings"
	"sync"
	"sync/atomic"
	"time"

	"github.com/jech/galene/token"
	"github.com/pion/webrtc/v4"

	"verif/harness/vclient"
)

// ---------------------------------------------------------------------------------
// the table: message kind -> required permissions (from the property text)

type kindSpec struct {
	name   string
	needs  []string
	target bool // acts on another member
}

var kinds = []kindSpec{
	{"chat", []string{"message"}, false},
	{"chat-to", []string{"message"}, true},
	{"caption", []string{"caption"}, false},
	{"usermessage", []string{"message"}, false},
	{"usermessage-to", []string{"message"}, true},
	{"op", []string{"op"}, true},
	{"unop", []string{"op"}, true},
	{"present", []string{"op"}, true},
	{"unpresent", []string{"op"}, true},
	{"shutup", []string{"op"}, true},
	{"unshutup", []string{"op"}, true},
	{"kick", []string{"op"}, true},
	{"identify", []string{"op"}, true},
	{"lock", []string{"op"}, false},
	{"unlock", []string{"op"}, false},
	{"clearchat", []string{"op"}, false},
	{"setdata", []string{"op"}, false},
	{"subgroups", []string{"op"}, false},
	{"record", []string{"record"}, false},
	{"unrecord", []string{"record"}, false},
	{"maketoken", []string{"token"}, false},
	{"edittoken", []string{"op", "token"}, false},
	{"listtokens", []string{"op", "token"}, false},
	{"offer", []string{"present"}, false},
}

func kindByName(n string) kindSpec {
	for _, k := range kinds {
		if k.name == n {
			return k
		}
	}
	return kindSpec{}
}

var allPerms = []string{"op", "present", "message", "caption", "token", "record"}

type permSet struct {
	name         string
	cfg          any      // what goes into the group file
	model        []string // what the member holds, from the documentation
	unrestricted bool     // group has unrestricted-tokens
}

func without(l []string, x string) []string {
	var o []string
	for _, s := range l {
		if s != x {
			o = append(o, s)
		}
	}
	return o
}

func permSets() []permSet {
	var out []permSet
	out = append(out, permSet{name: "full", cfg: allPerms, model: allPerms})
	for _, p := range allPerms {
		w := without(allPerms, p)
		out = append(out, permSet{name: "full-minus-" + p, cfg: w, model: w})
	}
	for _, p := range allPerms {
		out = append(out, permSet{name: "only-" + p, cfg: []string{p}, model: []string{p}})
	}
	out = append(out, permSet{name: "none", cfg: []string{}, model: nil})
	// groups of the harness have allow-recording, so an operator may record
	out = append(out, permSet{name: "role-op", cfg: "op", model: allPerms})
	out = append(out, permSet{name: "role-present", cfg: "present", model: []string{"present", "message"}})
	out = append(out, permSet{name: "role-message", cfg: "message", model: []string{"message"}})
	out = append(out, permSet{name: "role-observe", cfg: "observe", model: nil})
	out = append(out, permSet{name: "role-caption", cfg: "caption", model: []string{"caption"}})
	out = append(out, permSet{name: "role-present-unrestricted-tokens", cfg: "present", model: []string{"present", "message", "token"}, unrestricted: true})
	return out
}

func permSetByName(n string) permSet {
	for _, p := range permSets() {
		if p.name == n {
			return p
		}
	}
	return permSet{name: n}
}

func has(l []string, x string) bool {
	for _, s := range l {
		if s == x {
			return true
		}
	}
	return false
}

func hasAll(l []string, need []string) bool {
	for _, n := range need {
		if !has(l, n) {
			return false
		}
	}
	return true
}

func sameSet(a, b []string) bool {
	x := append([]string(nil), a...)
	y := append([]string(nil), b...)
	sort.Strings(x)
	sort.Strings(y)
	if len(x) != len(y) {
		return false
	}
	for i := range x {
		if x[i] != y[i] {
			return false
		}
	}
	return true
}

// ---------------------------------------------------------------------------------
// SDP

func makeOffer() (sdp, ufrag, pwd string, err error) {
	pc, err := webrtc.NewPeerConnection(webrtc.Configuration{})
	if err != nil {
		return "", "", "", err
	}
	defer pc.Close()
	for _, k := range []webrtc.RTPCodecType{webrtc.RTPCodecTypeAudio, webrtc.RTPCodecTypeVideo} {
		if _, err = pc.AddTransceiverFromKind(k, webrtc.RTPTransceiverInit{Direction: webrtc.RTPTransceiverDirectionSendonly}); err != nil {
			return "", "", "", err
		}
	}
	offer, err := pc.CreateOffer(nil)
	if err != nil {
		return "", "", "", err
	}
	for _, l := range strings.Split(offer.SDP, "\n") {
		l = strings.TrimSpace(l)
		if v, ok := strings.CutPrefix(l, "a=ice-ufrag:"); ok && ufrag == "" {
			ufrag = v
		}
		if v, ok := strings.CutPrefix(l, "a=ice-pwd:"); ok && pwd == "" {
			pwd = v
		}
	}
	return offer.SDP, ufrag, pwd, nil
}

// ---------------------------------------------------------------------------------
// worlds

var tokenMu sync.Mutex // serialises every token operation the harness performs or requests
var nonceCtr atomic.Int64

type actor struct {
	c       *vclient.Client
	member  bool
	perms   []string // model
	state   string   // never, joined, left, kicked, refused:<reason>
	permN   string
	user    string
	streams []string
}

type world struct {
	e         *env
	tag       string
	g, h      string
	variant   string // "", locked, full, not-open, expired, no-operator
	users     map[string]any
	unrestr   bool
	extraDesc map[string]any

	hlp, obs, tgt *vclient.Client
	expectClosed  *vclient.Client   // the target of a kick
	extra         []*vclient.Client // other connected clients (the actors)
	actors        []*actor

	locked    bool
	recording bool
	recID     string
	tok       string // a token of this group, created in-process
	tokExp    time.Time

	mu   sync.Mutex
	log  []string
	desc string
	bad  bool
}

func pw(user string) string { return "pw-" + user }

func (e *env) newWorld(tag, variant string, tgtPerms []string) *world {
	w := &world{e: e, tag: tag, g: "g-" + tag, h: "h-" + tag, variant: variant}
	obsPerms := []string{}
	if variant == "not-open" || variant == "expired" {
		// only operators get into such a group: the bystanders are operators there
		obsPerms = []string{"op"}
		if !has(tgtPerms, "op") {
			tgtPerms = append([]string{"op"}, tgtPerms...)
		}
	}
	w.users = map[string]any{
		"hlp": allPerms,
		"obs": obsPerms,
		"tgt": tgtPerms,
		"prb": []string{"message"},
	}
	return w
}

func (w *world) logf(format string, a ...any) {
	s := fmt.Sprintf(format, a...)
	w.mu.Lock()
	w.log = append(w.log, s)
	if len(w.log) > 300 {
		w.log = w.log[100:]
	}
	w.mu.Unlock()
	w.e.run.Note(w.tag + " " + s)
}

func (w *world) replay(j job) map[string]any {
	w.mu.Lock()
	l := append([]string(nil), w.log...)
	w.mu.Unlock()
	return map[string]any{
		"mode": "batch", "batch": w.e.batch,
		"args":     batchArgs{Index: w.e.batch, Class: w.e.class, Jobs: []job{j}, Workers: 1},
		"scenario": j.String() + " " + w.desc, "log": l,
	}
}

func far(d time.Duration) string { return time.Now().Add(d).UTC().Format(time.RFC3339) }

func (w *world) groupDesc() map[string]any {
	us := map[string]any{}
	for u, p := range w.users {
		us[u] = map[string]any{"password": pw(u), "permissions": p}
	}
	d := map[string]any{"allow-recording": true, "users": us}
	if w.unrestr {
		d["unrestricted-tokens"] = true
	}
	for k, v := range w.extraDesc {
		d[k] = v
	}
	switch w.variant {
	case "full":
		d["max-clients"] = 3
	case "not-open":
		d["not-before"] = far(365 * 24 * time.Hour)
	case "expired":
		d["expires"] = far(-365 * 24 * time.Hour)
	case "no-operator":
		d["autokick"] = true
	}
	return d
}

func (w *world) dial(suffix string) *vclient.Client {
	var err error
	for try := 0; try < 4; try++ {
		var c *vclient.Client
		if c, err = vclient.Dial(w.e.srv, w.tag+"-"+suffix); err == nil {
			return c
		}
	}
	w.inconclusive("dial failed: " + err.Error())
	return nil
}

var childStart = time.Now()
var dumpOnce sync.Once
var undecidedShown atomic.Int64

func (w *world) inconclusive(s string) {
	w.bad = true
	// A scenario that a watchdog (or a lost connection) leaves undecided is neither a pass
	// nor a violation; the parent makes the run inconclusive when there are more than a
	// handful of them (see main).
	w.e.run.Count("undecided_scenarios", 1)
	if n := undecidedShown.Add(1); n <= 3 {
		tail := ""
		if b, err := os.ReadFile(w.e.srv.LogFile); err == nil {
			if len(b) > 1200 {
				b = b[len(b)-1200:]
			}
			tail = string(b)
		}
		w.e.run.Set(fmt.Sprintf("undecided_example_b%d_%d", w.e.batch, n), fmt.Sprintf("%s (%s, %.1fs into the child): %s; end of the server's log: %s", w.tag, w.e.class, time.Since(childStart).Seconds(), s, tail))
	}
	// for the post-mortem (the check's --keep): where is everybody?
	dumpOnce.Do(func() {
		buf := make([]byte, 8<<20)
		n := runtime.Stack(buf, true)
		fmt.Fprintf(os.Stderr, "\n==== goroutines at the first watchdog (%s) ====\n%s\n", s, buf[:n])
	})
}

func (w *world) joinAs(c *vclient.Client, user string) bool {
	w.logf("%s join %s as %s", c.ID, w.g, user)
	m, ok := join(c, w.g, user, pw(user))
	if !ok {
		w.inconclusive("no reply to a bystander's join")
		return false
	}
	if m.Str("kind") != "join" {
		w.inconclusive(fmt.Sprintf("bystander %s could not join: %v", user, m["value"]))
		return false
	}
	return true
}

// setup writes the group files and brings the bystanders in.
func (w *world) setup() bool {
	if err := w.e.srv.WriteGroup(w.g, w.groupDesc()); err != nil {
		w.inconclusive("cannot write group file: " + err.Error())
		return false
	}
	w.e.srv.WriteGroup(w.h, map[string]any{"users": map[string]any{"hlp": map[string]any{"password": pw("hlp"), "permissions": "op"}}})
	if w.variant == "no-operator" {
		return true // nobody can be in such a group
	}
	if w.hlp = w.dial("hlp"); w.hlp == nil {
		return false
	}
	if w.obs = w.dial("obs"); w.obs == nil {
		return false
	}
	if w.tgt = w.dial("tgt"); w.tgt == nil {
		return false
	}
	if !w.joinAs(w.hlp, "hlp") || !w.joinAs(w.obs, "obs") || !w.joinAs(w.tgt, "tgt") {
		return false
	}
	if w.variant == "locked" {
		if !w.ensureLocked(true) {
			return false
		}
	}
	return true
}

func (w *world) clients() []*vclient.Client {
	var cs []*vclient.Client
	for _, c := range []*vclient.Client{w.hlp, w.obs, w.tgt} {
		if c != nil {
			cs = append(cs, c)
		}
	}
	cs = append(cs, w.extra...)
	return cs
}

func live(cs []*vclient.Client) []*vclient.Client {
	var out []*vclient.Client
	for _, c := range cs {
		if c == nil {
			continue
		}
		if closed, _ := c.Closed(); !closed {
			out = append(out, c)
		}
	}
	return out
}

// quiesce establishes logical quiescence of the world.
//
// What a message causes reaches a member either by a direct write from the goroutine
// that handles the message (before that goroutine answers a ping), or through the
// member's FIFO action queue, possibly in several hops (moderation: target's queue,
// target's queue again, everybody's queue).  A ping only flushes the first kind (the
// server picks at random between a ready socket and a ready queue).  So the helper
// operator sends a 'setdata' with a fresh number: the server queues a 'joined change'
// to every member, behind whatever is in its queue; when every member has shown that
// number, one hop has been flushed everywhere.  Four such rounds flush four hops (the
// longest chain in the server has three), then a ping per connection flushes the
// direct writes and covers the connections that are not members.
const barrierKey = "c11-barrier"

var barrierCtr atomic.Int64

func barrierValue(m vclient.Msg) (int64, bool) {
	if m.Str("type") != "joined" || m.Str("kind") != "change" {
		return 0, false
	}
	d, _ := m["data"].(map[string]any)
	v, ok := d[barrierKey].(float64)
	return int64(v), ok
}

func (w *world) quiesce(more ...*vclient.Client) bool {
	if w.hlp != nil && !closedNow(w.hlp) {
		for round := 0; round < 4; round++ {
			n := barrierCtr.Add(1)
			var members []*vclient.Client
			marks := map[*vclient.Client]int{}
			for _, c := range w.clients() {
				if w.isMember(c) {
					members = append(members, c)
					marks[c] = c.EventCount()
				}
			}
			if err := w.hlp.Send(vclient.Msg{"type": "groupaction", "kind": "setdata", "source": w.hlp.ID, "value": map[string]any{barrierKey: n}}); err != nil {
				w.inconclusive("the helper operator lost its connection")
				return false
			}
			for _, c := range members {
				_, ok := c.WaitForFrom(marks[c], func(m vclient.Msg) bool { v, ok := barrierValue(m); return ok && v >= n }, wd)
				if !ok && !goneSoon(c) {
					w.inconclusive("barrier round not echoed to member " + c.ID)
					return false
				}
			}
		}
	}
	for _, c := range live(append(w.clients(), more...)) {
		if !ping(c) && !goneSoon(c) {
			w.inconclusive("no pong from the server for " + c.ID)
			return false
		}
	}
	// a bystander whose connection the server dropped (overload) has a stale view
	for _, c := range []*vclient.Client{w.hlp, w.obs, w.tgt} {
		if c != nil && c != w.expectClosed && closedNow(c) {
			_, cerr := c.Closed()
			w.inconclusive(fmt.Sprintf("the connection of bystander %s was lost (%v)", c.ID, cerr))
			return false
		}
	}
	return true
}

func (w *world) close() {
	if w.recording && w.hlp != nil {
		w.hlp.Send(vclient.Msg{"type": "groupaction", "kind": "unrecord", "source": w.hlp.ID})
		ping(w.hlp)
	}
	for _, c := range w.clients() {
		c.Close()
	}
}

// news returns what c received since index from; pings, pongs and the echoes of the
// barrier rounds excluded.  The first 'joined change' that shows a new barrier number is
// the echo of that round; any other 'joined change' is a real event (it shows the
// number of the last round, like everything else that reads the group's data).
func news(c *vclient.Client, from int) []vclient.Msg {
	var out []vclient.Msg
	last := int64(0)
	for i, e := range c.Events() {
		if v, ok := barrierValue(e.M); ok && v > last {
			last = v
			continue
		}
		if i < from {
			continue
		}
		if t := e.M.Str("type"); t == "ping" || t == "pong" {
			continue
		}
		out = append(out, e.M)
	}
	return out
}

func brief(ms []vclient.Msg) string {
	var parts []string
	for _, m := range ms {
		s := m.Str("type")
		if k := m.Str("kind"); k != "" {
			s += "/" + k
		}
		if id := m.Str("id"); id != "" {
			s += " id=" + id
		}
		if v, ok := m["value"].(string); ok && v != "" {
			if len(v) > 60 {
				v = v[:60]
			}
			s += " value=" + v
		}
		if e := m.Str("error"); e != "" {
			s += " error=" + e
		}
		parts = append(parts, s)
		if len(parts) >= 8 {
			parts = append(parts, "...")
			break
		}
	}
	return "[" + strings.Join(parts, "; ") + "]"
}

func statusLocked(m vclient.Msg) bool {
	st, _ := m["status"].(map[string]any)
	l, _ := st["locked"].(bool)
	return l
}

// ensureLocked makes the helper operator put the group into the wanted lock state.
func (w *world) ensureLocked(want bool) bool {
	if w.hlp == nil || w.locked == want {
		return w.locked == want
	}
	kind := "unlock"
	if want {
		kind = "lock"
	}
	from := w.hlp.EventCount()
	w.logf("helper %s", kind)
	w.hlp.Send(vclient.Msg{"type": "groupaction", "kind": kind, "source": w.hlp.ID})
	_, ok := w.hlp.WaitForFrom(from, func(m vclient.Msg) bool {
		return m.Str("type") == "joined" && m.Str("kind") == "change" && statusLocked(m) == want
	}, wd)
	if !ok {
		w.inconclusive("helper operator could not " + kind + " the group")
		return false
	}
	w.locked = want
	return true
}

// ensureRecording makes the helper operator start or stop a recording.
func (w *world) ensureRecording(want bool) bool {
	if w.hlp == nil || w.recording == want {
		return w.recording == want
	}
	watcher := w.obs
	from := watcher.EventCount()
	if want {
		w.logf("helper record")
		w.hlp.Send(vclient.Msg{"type": "groupaction", "kind": "record", "source": w.hlp.ID})
		m, ok := watcher.WaitForFrom(from, func(m vclient.Msg) bool {
			return m.Str("type") == "user" && m.Str("kind") == "add" && m.Str("username") == "RECORDING"
		}, wd)
		if !ok {
			w.inconclusive("helper operator could not start a recording")
			return false
		}
		w.recording, w.recID = true, m.Str("id")
		return true
	}
	w.logf("helper unrecord")
	id := w.recID
	w.hlp.Send(vclient.Msg{"type": "groupaction", "kind": "unrecord", "source": w.hlp.ID})
	_, ok := watcher.WaitForFrom(from, func(m vclient.Msg) bool {
		return m.Str("type") == "user" && m.Str("kind") == "delete" && m.Str("id") == id
	}, wd)
	if !ok {
		w.inconclusive("helper operator could not stop the recording")
		return false
	}
	w.recording, w.recID = false, ""
	return true
}

func (w *world) newTokenName() string {
	return fmt.Sprintf("tk-%s-%d", w.tag, nonceCtr.Add(1))
}

// mkToken stores a token through the token package (in-process, like the admin API would).
func (w *world) mkToken(group string, perms []string, expires time.Time, username *string) (string, bool) {
	name := w.newTokenName()
	exp := expires.UTC()
	tokenMu.Lock()
	_, err := token.Update(&token.Stateful{Token: name, Group: group, Permissions: perms, Expires: &exp, Username: username}, "")
	tokenMu.Unlock()
	if err != nil {
		w.inconclusive("cannot create a token in-process: " + err.Error())
		return "", false
	}
	return name, true
}

func (w *world) ensureToken() bool {
	if w.tok != "" {
		return true
	}
	w.tokExp = time.Now().Add(time.Hour).UTC().Truncate(time.Second)
	t, ok := w.mkToken(w.g, []string{"message"}, w.tokExp, nil)
	w.tok = t
	return ok
}

func tokenNames(group string) map[string]*token.Stateful {
	l, _, _ := token.List(group)
	out := map[string]*token.Stateful{}
	for _, t := range l {
		out[t.Token] = t.Clone()
	}
	return out
}

// ---------------------------------------------------------------------------------
// building the actor's membership state

// makeActor constructs the membership state explicitly and returns the actor.
func (w *world) makeActor(state string, ps permSet, suffix string) *actor {
	run := w.e.run
	a := &actor{state: state, permN: ps.name, user: "act"}
	id := "act" + suffix
	if state == "refused:duplicate-id" {
		id = "tgt" // the id of a client that is already in the group
	}
	if a.c = w.dial(id); a.c == nil {
		return nil
	}
	w.extra = append(w.extra, a.c)
	w.actors = append(w.actors, a)
	fail := func(m vclient.Msg, ok bool, why string) *actor {
		if !ok {
			w.inconclusive("no reply to the actor's join (" + state + ")")
			return nil
		}
		if m.Str("kind") != "fail" {
			// the state could not be constructed: this is about admission (C08/C10), not C11
			w.inconclusive(fmt.Sprintf("state %s could not be constructed: join answered %s", state, m.Str("kind")))
			return nil
		}
		w.logf("actor's join refused (%s): %v", why, m["value"])
		return a
	}
	switch state {
	case "never":
		// handshake only
	case "joined", "left", "kicked":
		w.logf("actor %s joins %s as act %v", a.c.ID, w.g, ps.cfg)
		m, ok := join(a.c, w.g, "act", pw("act"))
		if !ok || m.Str("kind") != "join" {
			w.inconclusive(fmt.Sprintf("actor could not join: %v", m))
			return nil
		}
		a.member, a.perms = true, append([]string(nil), ps.model...)
		if got := m.StrList("permissions"); !sameSet(got, ps.model) {
			// what a login grants is C08's business; here it would make every expectation moot
			w.inconclusive(fmt.Sprintf("login as %v granted %v, the documentation says %v", ps.cfg, got, ps.model))
			return nil
		}
		switch state {
		case "left":
			w.logf("actor leaves")
			if !leave(a.c, w.g) {
				w.inconclusive("leave was not acknowledged")
				return nil
			}
			a.member, a.perms = false, nil
		case "kicked":
			w.logf("helper kicks the actor")
			w.hlp.Send(vclient.Msg{"type": "useraction", "kind": "kick", "source": w.hlp.ID, "dest": a.c.ID, "value": "out"})
			deadline := time.Now().Add(wd)
			for {
				if closed, _ := a.c.Closed(); closed {
					break
				}
				if time.Now().After(deadline) {
					w.inconclusive("kicked actor's socket was not closed")
					return nil
				}
				time.Sleep(5 * time.Millisecond)
			}
			a.member, a.perms = false, nil
		}
	case "refused:bad-password":
		w.logf("actor joins with a wrong password")
		m, ok := join(a.c, w.g, "act", "not-the-password")
		if fail(m, ok, "bad password") == nil {
			return nil
		}
	case "refused:no-such-group":
		w.logf("actor joins a group that does not exist")
		m, ok := join(a.c, "nonexistent-"+w.tag, "act", pw("act"))
		if fail(m, ok, "no such group") == nil {
			return nil
		}
	case "refused:locked", "refused:full", "refused:not-open", "refused:expired", "refused:no-operator", "refused:duplicate-id":
		w.logf("actor %s joins %s as act %v (must be refused: %s)", a.c.ID, w.g, ps.cfg, state)
		m, ok := join(a.c, w.g, "act", pw("act"))
		if fail(m, ok, state) == nil {
			return nil
		}
	default:
		w.inconclusive("unknown state " + state)
		return nil
	}
	run.Count("state_constructed:"+state, 1)
	return a
}

func variantFor(state string) string {
	switch state {
	case "refused:locked":
		return "locked"
	case "refused:full":
		return "full"
	case "refused:not-open":
		return "not-open"
	case "refused:expired":
		return "expired"
	case "refused:no-operator":
		return "no-operator"
	}
	return ""
}

// target permissions that make the moderation action a real change
func targetPermsFor(kind string) []string {
	switch kind {
	case "unop":
		return []string{"op", "present", "message"}
	case "present":
		return []string{"message"}
	case "unshutup":
		return []string{"present"}
	}
	return []string{"present", "message"}
}

// ---------------------------------------------------------------------------------
// performing one message and reading its effect

type outcome struct {
	performed bool   // the effect of the table was observed
	complete  bool   // ... at every party the table names
	side      bool   // not performed, yet some other party saw something
	detail    string // what was seen
	wd        bool   // watchdog: undecided
	tokenStr  string
}

func (w *world) others(a *actor) []*vclient.Client {
	var out []*vclient.Client
	for _, c := range w.clients() {
		if c != a.c {
			out = append(out, c)
		}
	}
	return out
}

// isMember: the bystanders are members for their whole life; actors according to the model.
func (w *world) isMember(c *vclient.Client) bool {
	if closedNow(c) {
		return false
	}
	if c == w.hlp || c == w.obs || c == w.tgt {
		return true
	}
	for _, a := range w.actors {
		if a.c == c {
			return a.member
		}
	}
	return false
}

// memberOthers: the live members other than the actor.
func (w *world) memberOthers(a *actor) []*vclient.Client {
	var out []*vclient.Client
	for _, c := range w.others(a) {
		if w.isMember(c) {
			out = append(out, c)
		}
	}
	return out
}

func closedNow(c *vclient.Client) bool {
	cl, _ := c.Closed()
	return cl
}

// perform sends one message of the given kind from actor a (target tgt for kinds that
// have one) and reports the effect observed at logical quiescence.
func (w *world) perform(a *actor, ks kindSpec, tgt *vclient.Client, j job, expected bool) outcome {
	var out outcome
	// prerequisites, established by the helper operator
	probeJoin := false
	switch ks.name {
	case "lock":
		if w.variant == "" && w.hlp != nil {
			if !w.ensureLocked(false) {
				return outcome{wd: true}
			}
			probeJoin = true
		}
	case "unlock":
		if w.hlp != nil {
			if !w.ensureLocked(true) {
				return outcome{wd: true}
			}
			probeJoin = w.variant == "" || w.variant == "locked"
		}
	case "record":
		if w.hlp != nil && !w.ensureRecording(false) {
			return outcome{wd: true}
		}
	case "unrecord":
		if w.hlp != nil && !w.ensureRecording(true) {
			return outcome{wd: true}
		}
	case "edittoken", "listtokens":
		if !w.ensureToken() {
			return outcome{wd: true}
		}
	}
	if w.bad || !w.quiesce() {
		return outcome{wd: true}
	}
	others := w.others(a)
	closedBefore := map[*vclient.Client]bool{}
	for _, c := range w.clients() {
		closedBefore[c] = closedNow(c)
		if closedBefore[c] && !(c == a.c && a.state == "kicked") {
			// the harness removes what it closes; this one was dropped by the server
			_, cerr := c.Closed()
			w.inconclusive(fmt.Sprintf("the connection of %s was lost (%v)", c.ID, cerr))
			return outcome{wd: true}
		}
	}
	mo := w.memberOthers(a) // who must see a broadcast effect
	moExceptTarget := 0
	for _, c := range mo {
		if c != tgt {
			moExceptTarget++
		}
	}
	mark := map[*vclient.Client]int{}
	for _, c := range w.clients() {
		mark[c] = c.EventCount()
	}
	nonce := fmt.Sprintf("N%d-%s", nonceCtr.Add(1), w.tag)
	tgtID := ""
	if tgt != nil {
		tgtID = tgt.ID
	}
	src := a.c.ID
	var m vclient.Msg
	var delegated []string
	// a different instant each time, so that a second edit is visible too
	newExp := time.Now().Add(3*time.Hour + time.Duration(nonceCtr.Add(1)%50000)*time.Second).UTC().Truncate(time.Second)
	streamID := "st-" + nonce
	switch ks.name {
	case "chat":
		m = vclient.Msg{"type": "chat", "source": src, "dest": "", "value": nonce}
	case "chat-to":
		m = vclient.Msg{"type": "chat", "source": src, "dest": tgtID, "value": nonce}
	case "caption":
		m = vclient.Msg{"type": "chat", "kind": "caption", "source": src, "dest": "", "value": nonce}
	case "usermessage":
		m = vclient.Msg{"type": "usermessage", "kind": "c11", "source": src, "dest": "", "value": nonce}
	case "usermessage-to":
		m = vclient.Msg{"type": "usermessage", "kind": "c11", "source": src, "dest": tgtID, "value": nonce}
	case "op", "unop", "present", "unpresent", "shutup", "unshutup", "identify":
		m = vclient.Msg{"type": "useraction", "kind": ks.name, "source": src, "dest": tgtID}
	case "kick":
		m = vclient.Msg{"type": "useraction", "kind": "kick", "source": src, "dest": tgtID, "value": nonce}
	case "lock", "unlock":
		m = vclient.Msg{"type": "groupaction", "kind": ks.name, "source": src, "value": nonce}
	case "clearchat", "subgroups", "record", "unrecord", "listtokens":
		m = vclient.Msg{"type": "groupaction", "kind": ks.name, "source": src}
	case "setdata":
		m = vclient.Msg{"type": "groupaction", "kind": "setdata", "source": src, "value": map[string]any{nonce: 1}}
	case "maketoken":
		for _, p := range []string{"present", "message"} {
			if has(a.perms, p) {
				delegated = append(delegated, p)
			}
		}
		if delegated == nil {
			delegated = []string{}
		}
		m = vclient.Msg{"type": "groupaction", "kind": "maketoken", "source": src,
			"value": map[string]any{"group": w.g, "permissions": delegated, "expires": far(time.Hour)}}
	case "edittoken":
		m = vclient.Msg{"type": "groupaction", "kind": "edittoken", "source": src,
			"value": map[string]any{"token": w.tok, "expires": newExp.Format(time.RFC3339)}}
	case "offer":
		m = vclient.Msg{"type": "offer", "id": streamID, "label": "camera", "source": src, "sdp": w.e.offer}
	}
	tokensBefore := tokenNames(w.g)
	pn, _ := json.Marshal(probeNote{Kind: ks.name, State: a.state, Perms: a.permN, Expected: expected, Job: j.String(), Tag: w.tag})
	w.e.run.Note("PROBE " + string(pn))
	mm := vclient.Msg{}
	for k, v := range m {
		if k == "sdp" {
			v = "<sdp offer, audio+video sendonly>"
		}
		mm[k] = v
	}
	mb, _ := json.Marshal(mm)
	w.logf("ACTOR %s [%s, model permissions %v] -> %s", a.c.ID, a.state, a.perms, mb)

	if ks.name == "kick" && tgt == w.tgt {
		w.expectClosed = tgt
	}
	tokenKind := ks.name == "maketoken" || ks.name == "edittoken"
	if tokenKind {
		tokenMu.Lock()
	}
	barrier := true
	if !closedNow(a.c) {
		a.c.Send(m)
		barrier = ping(a.c) || goneSoon(a.c)
	}
	if tokenKind {
		tokenMu.Unlock()
	}
	if !barrier {
		w.inconclusive("no pong from the server after the actor's message")
		return outcome{wd: true}
	}
	if !w.quiesce() {
		return outcome{wd: true}
	}

	// On an overloaded machine the server now and then drops a connection (its socket
	// writes have a 500 ms deadline).  A bystander that vanishes that way makes the
	// case undecidable: its departure is not an effect of the actor's message.  (The
	// target of a 'kick' is looked at separately.)
	for _, c := range w.clients() {
		if closedNow(c) && !closedBefore[c] && !(ks.name == "kick" && c == tgt) {
			_, cerr := c.Closed()
			w.inconclusive(fmt.Sprintf("the connection of %s was lost during the case (%v)", c.ID, cerr))
			return outcome{wd: true}
		}
	}

	// what everybody saw
	seen := map[*vclient.Client][]vclient.Msg{}
	otherNews := 0
	for _, c := range w.clients() {
		seen[c] = news(c, mark[c])
		if c != a.c {
			otherNews += len(seen[c])
		}
	}
	anyOther := func(pred func(vclient.Msg) bool) int {
		n := 0
		for _, c := range others {
			for _, e := range seen[c] {
				if pred(e) {
					n++
					break
				}
			}
		}
		return n
	}
	at := func(c *vclient.Client, pred func(vclient.Msg) bool) (vclient.Msg, bool) {
		if c == nil {
			return nil, false
		}
		for _, e := range seen[c] {
			if pred(e) {
				return e, true
			}
		}
		return nil, false
	}
	var replyErr string
	for _, e := range seen[a.c] {
		if e.Str("type") == "usermessage" && e.Str("kind") == "error" {
			replyErr, _ = e["value"].(string)
		}
	}

	switch ks.name {
	case "chat", "caption", "usermessage":
		n := anyOther(func(e vclient.Msg) bool { v, _ := e["value"].(string); return v == nonce })
		out.performed = n > 0
		out.complete = n == len(mo)
		out.detail = fmt.Sprintf("%d of %d other members received the message", n, len(mo))
	case "chat-to", "usermessage-to":
		_, got := at(tgt, func(e vclient.Msg) bool { v, _ := e["value"].(string); return v == nonce })
		n := anyOther(func(e vclient.Msg) bool { v, _ := e["value"].(string); return v == nonce })
		out.performed = n > 0
		out.complete = got
		out.detail = fmt.Sprintf("target received it: %v", got)
	case "op", "unop", "present", "unpresent", "shutup", "unshutup":
		perm, wantHeld := map[string]string{"op": "op", "unop": "op", "present": "present", "unpresent": "present", "shutup": "message", "unshutup": "message"}[ks.name],
			ks.name == "op" || ks.name == "present" || ks.name == "unshutup"
		ack, acked := at(tgt, func(e vclient.Msg) bool { return e.Str("type") == "joined" && e.Str("kind") == "change" })
		n := anyOther(func(e vclient.Msg) bool {
			return e.Str("type") == "user" && e.Str("kind") == "change" && e.Str("id") == tgtID
		})
		out.performed = acked || n > 0
		out.complete = acked && has(ack.StrList("permissions"), perm) == wantHeld && n == len(mo)
		if acked {
			out.detail = fmt.Sprintf("target was told its permissions are %v; %d of %d members were told about the change", ack.StrList("permissions"), n, len(mo))
		} else {
			out.detail = fmt.Sprintf("target was told nothing; %d of %d members were told about a change", n, len(mo))
		}
	case "kick":
		_, kicked := at(tgt, func(e vclient.Msg) bool { return e.Str("type") == "usermessage" && e.Str("kind") == "kicked" })
		n := anyOther(func(e vclient.Msg) bool {
			return e.Str("type") == "user" && e.Str("kind") == "delete" && e.Str("id") == tgtID
		})
		if kicked || n > 0 {
			// the close follows the message
			deadline := time.Now().Add(wd)
			for tgt != nil && !closedNow(tgt) && time.Now().Before(deadline) {
				time.Sleep(5 * time.Millisecond)
			}
		}
		closed := tgt != nil && closedNow(tgt)
		if !kicked && (n > 0 || closed) && tgt != a.c && replyErr != "" && !expected {
			// The target went away WITHOUT having been kicked (a kick tells the target so before
			// its socket is closed) while the server answered the actor with a refusal: its
			// connection was lost for another reason (on a loaded machine the server drops a
			// client it cannot write to within 500 ms).  Not the effect of this message; the
			// scenario has lost its target and is abandoned without a verdict.
			w.inconclusive(fmt.Sprintf("the target %s went away without having been kicked while the server refused the actor's kick (%q): connection lost for another reason", tgtID, replyErr))
			return outcome{wd: true}
		}
		out.performed = kicked || n > 0 || (closed && tgt != a.c)
		out.complete = kicked && closed && n == moExceptTarget
		out.detail = fmt.Sprintf("target told 'kicked': %v, its socket closed: %v, %d members saw it leave", kicked, closed, n)
	case "identify":
		info, got := at(a.c, func(e vclient.Msg) bool { return e.Str("type") == "usermessage" && e.Str("kind") == "userinfo" })
		_, warned := at(tgt, func(e vclient.Msg) bool { return e.Str("type") == "usermessage" && e.Str("kind") == "warning" })
		if tgt == a.c {
			warned = false
		}
		out.performed = got || warned
		v, _ := info["value"].(map[string]any)
		id, _ := v["id"].(string)
		out.complete = got && warned && id == tgtID
		out.detail = fmt.Sprintf("actor got userinfo: %v, target was warned: %v", got, warned)
	case "lock", "unlock":
		want := ks.name == "lock"
		n := anyOther(func(e vclient.Msg) bool {
			return e.Str("type") == "joined" && e.Str("kind") == "change" && statusLocked(e) == want
		})
		out.performed = n > 0
		out.complete = n == len(mo)
		out.detail = fmt.Sprintf("%d members were told the group is now locked=%v", n, want)
		if probeJoin {
			// the behavioural side: can somebody who is not an operator get in?
			p := w.dial(fmt.Sprintf("prb%d", nonceCtr.Add(1)))
			if p == nil {
				return outcome{wd: true}
			}
			w.logf("probe joins as a non-operator")
			pm, ok := join(p, w.g, "prb", pw("prb"))
			if !ok {
				p.Close()
				w.inconclusive("no reply to the probe's join")
				return outcome{wd: true}
			}
			accepted := pm.Str("kind") == "join"
			if accepted {
				leave(p, w.g) // acknowledged: the departure has been queued to everybody
			}
			p.Close()
			out.detail += fmt.Sprintf("; afterwards a non-operator's join was accepted: %v", accepted)
			nowLocked := !accepted
			if nowLocked == want {
				out.performed = true
			} else {
				out.complete = false
			}
			if !w.quiesce() {
				return outcome{wd: true}
			}
		}
		if out.performed {
			w.locked = want
		}
	case "clearchat":
		n := anyOther(func(e vclient.Msg) bool { return e.Str("type") == "usermessage" && e.Str("kind") == "clearchat" })
		out.performed = n > 0
		out.complete = n == len(mo)
		out.detail = fmt.Sprintf("%d of %d members were told to clear the chat", n, len(mo))
	case "setdata":
		n := anyOther(func(e vclient.Msg) bool {
			d, _ := e["data"].(map[string]any)
			_, in := d[nonce]
			return e.Str("type") == "joined" && e.Str("kind") == "change" && in
		})
		out.performed = n > 0
		out.complete = n == len(mo)
		out.detail = fmt.Sprintf("%d of %d members received the new group data", n, len(mo))
	case "subgroups":
		_, got := at(a.c, func(e vclient.Msg) bool {
			return e.Str("type") == "chat" && e.Str("username") == "Server" && e.Str("source") == ""
		})
		out.performed, out.complete = got, got
		out.detail = fmt.Sprintf("actor received the list from 'Server': %v", got)
	case "record":
		var rid string
		n := anyOther(func(e vclient.Msg) bool {
			if e.Str("type") == "user" && e.Str("kind") == "add" && e.Str("username") == "RECORDING" {
				rid = e.Str("id")
				return true
			}
			return false
		})
		out.performed = n > 0
		out.complete = n == len(mo)
		out.detail = fmt.Sprintf("%d members saw a RECORDING member appear", n)
		if out.performed {
			w.recording, w.recID = true, rid
		}
	case "unrecord":
		rid := w.recID
		n := anyOther(func(e vclient.Msg) bool {
			return e.Str("type") == "user" && e.Str("kind") == "delete" && e.Str("id") == rid
		})
		out.performed = n > 0
		out.complete = n == len(mo)
		out.detail = fmt.Sprintf("%d members saw the RECORDING member disappear", n)
		if out.performed {
			w.recording, w.recID = false, ""
		}
	case "maketoken":
		after := tokenNames(w.g)
		var created []*token.Stateful
		for n, t := range after {
			if _, old := tokensBefore[n]; !old {
				created = append(created, t)
			}
		}
		reply, replied := at(a.c, func(e vclient.Msg) bool { return e.Str("type") == "usermessage" && e.Str("kind") == "token" })
		out.performed = len(created) > 0
		out.detail = fmt.Sprintf("%d new token(s) in the store; reply error=%q", len(created), reply.Str("error"))
		if out.performed {
			v, _ := reply["value"].(map[string]any)
			ts, _ := v["token"].(string)
			out.tokenStr = ts
			out.complete = replied && reply.Str("error") == "" && len(created) == 1 && created[0].Token == ts && sameSet(created[0].Permissions, delegated)
			if out.complete && !w.locked {
				// and it is honoured: a newcomer gets exactly the delegated permissions
				n := w.dial(fmt.Sprintf("tokjoin%d", nonceCtr.Add(1)))
				if n == nil {
					return outcome{wd: true}
				}
				jm, ok := joinToken(n, w.g, "invitee-"+w.tag, ts)
				if ok && jm.Str("kind") == "join" {
					leave(n, w.g)
				}
				n.Close()
				if !ok {
					w.inconclusive("no reply to a token join")
					return outcome{wd: true}
				}
				if jm.Str("kind") != "join" || !sameSet(jm.StrList("permissions"), delegated) {
					out.complete = false
					out.detail += fmt.Sprintf("; joining with it answered %s with permissions %v, delegated were %v", jm.Str("kind"), jm.StrList("permissions"), delegated)
				} else {
					w.e.run.Count("token_honoured_with_exact_permissions", 1)
				}
				if !w.quiesce() {
					return outcome{wd: true}
				}
			}
		}
	case "edittoken":
		t, _, err := token.Get(w.tok)
		if err != nil || t == nil || t.Expires == nil {
			w.inconclusive("the token under edit vanished")
			return outcome{wd: true}
		}
		reply, _ := at(a.c, func(e vclient.Msg) bool { return e.Str("type") == "usermessage" && e.Str("kind") == "token" })
		out.performed = !t.Expires.Equal(w.tokExp)
		out.complete = t.Expires.Equal(newExp) && reply.Str("error") == ""
		out.detail = fmt.Sprintf("stored expiry moved: %v; reply error=%q value=%v", out.performed, reply.Str("error"), reply["value"])
		if out.performed {
			w.tokExp = *t.Expires
		}
	case "listtokens":
		reply, got := at(a.c, func(e vclient.Msg) bool { return e.Str("type") == "usermessage" && e.Str("kind") == "tokenlist" })
		l, isList := reply["value"].([]any)
		out.performed = got && reply.Str("error") == "" && isList
		out.complete = false
		for _, x := range l {
			if tm, _ := x.(map[string]any); tm != nil {
				if s, _ := tm["token"].(string); s == w.tok {
					out.complete = true
				}
			}
		}
		out.detail = fmt.Sprintf("actor received a token list: %v (%d entries)", out.performed, len(l))
	case "offer":
		_, answered := at(a.c, func(e vclient.Msg) bool { return e.Str("type") == "answer" && e.Str("id") == streamID })
		_, aborted := at(a.c, func(e vclient.Msg) bool { return e.Str("type") == "abort" && e.Str("id") == streamID })
		out.performed, out.complete = answered, answered && !aborted
		out.detail = fmt.Sprintf("actor got an answer: %v, an abort: %v", answered, aborted)
		if answered {
			a.streams = append(a.streams, streamID)
			// The server announces a new stream to the other members 200 ms (of real
			// time) after the offer; a stream without media is announced as 'close'.
			// Wait for that announcement at everybody, so that it (and what a recorder
			// says about the stream at that moment) is not taken for the effect of a
			// later message.
			for _, c := range mo {
				if _, ok := c.WaitForFrom(mark[c], func(e vclient.Msg) bool { return e.Str("type") == "close" && e.Str("id") == streamID }, wd); !ok && !closedNow(c) {
					w.inconclusive("a published stream was never announced to " + c.ID)
					return outcome{wd: true}
				}
			}
			if !w.quiesce() {
				return outcome{wd: true}
			}
		}
	}
	if !out.performed && otherNews > 0 {
		out.side = true
		var parts []string
		for _, c := range others {
			if len(seen[c]) > 0 {
				parts = append(parts, c.ID+" saw "+brief(seen[c]))
			}
		}
		out.detail += "; yet " + strings.Join(parts, ", ")
	}
	if replyErr != "" {
		out.detail += fmt.Sprintf("; server told the actor %q", replyErr)
	}
	w.logf("OBSERVED performed=%v complete=%v: %s", out.performed, out.complete, out.detail)
	return out
}

func stateClass(a *actor) string {
	if a.state == "joined" {
		return "joined"
	}
	return a.state
}

// judge compares the outcome with what the property demands.
func (w *world) judge(a *actor, ks kindSpec, expected bool, out outcome, j job) {
	run := w.e.run
	if out.wd || w.bad {
		run.Count("undecided_cases", 1)
		return
	}
	run.Eval(1)
	permClass := a.permN
	if a.state != "joined" {
		permClass = "-"
	}
	run.Distinct(fmt.Sprintf("%s|%s|%s|%v", ks.name, stateClass(a), permClass, expected))
	who := fmt.Sprintf("a client in state %q (configured permissions %s, holding %v)", a.state, a.permN, a.perms)
	switch {
	case expected && out.performed && out.complete:
		run.Count("performed:"+ks.name, 1)
		run.Count("performed_total", 1)
	case expected && out.performed:
		run.Violation("partial-effect:"+ks.name, fmt.Sprintf("%s sent %q, which needs %v: the action was performed but not as the table says: %s", who, ks.name, ks.needs, out.detail), w.replay(j))
	case expected:
		run.Violation("refused-despite-permission:"+ks.name, fmt.Sprintf("%s sent %q, which needs only %v, and nothing happened: %s", who, ks.name, ks.needs, out.detail), w.replay(j))
	case out.performed:
		run.Violation("performed-without-permission:"+ks.name+":"+stateClass(a), fmt.Sprintf("%s sent %q, which needs %v of a current member, and the server performed it: %s", who, ks.name, ks.needs, out.detail), w.replay(j))
		if r, ok := strings.CutPrefix(a.state, "refused:"); ok {
			run.Violation("refused-join-keeps-permissions:"+r, fmt.Sprintf("after a join refused for %q the connection could still perform %q: %s", r, ks.name, out.detail), w.replay(j))
		}
	case out.side:
		run.Violation("refusal-had-effect:"+ks.name, fmt.Sprintf("%s sent %q (needs %v); it was refused but other parties were affected: %s", who, ks.name, ks.needs, out.detail), w.replay(j))
	default:
		run.Count("refused:"+ks.name, 1)
		run.Count("refused_total", 1)
		if a.state != "joined" {
			run.Count("refused_nonmember", 1)
		}
	}
}

// runCase: one cell of the matrix in a fresh group.
func (e *env) runCase(j job) {
	ks := kindByName(j.Kind)
	ps := permSetByName(j.Perms)
	if j.Perms == "full-minus-op" && strings.HasPrefix(j.State, "refused:") {
		// the most a connection could wrongly keep: everything a non-operator may hold
		// (an operator is not subject to lock, limits, opening hours or autokick)
		ps = permSet{name: "full-minus-op", cfg: without(allPerms, "op"), model: without(allPerms, "op")}
	}
	if j.State == "refused:duplicate-id" || j.State == "refused:bad-password" || j.State == "refused:no-such-group" {
		ps = permSet{name: "full", cfg: allPerms, model: allPerms}
	}
	tp := targetPermsFor(ks.name)
	w := e.newWorld(fmt.Sprintf("b%dj%d", e.batch, j.I), variantFor(j.State), tp)
	w.users["act"] = ps.cfg
	w.unrestr = ps.unrestricted
	w.desc = fmt.Sprintf("(group %s, variant %q, target permissions %v)", w.g, w.variant, tp)
	defer w.close()
	if !w.setup() {
		return
	}
	a := w.makeActor(j.State, ps, "")
	if a == nil {
		return
	}
	expected := a.member && hasAll(a.perms, ks.needs)
	out := w.perform(a, ks, w.tgt, j, expected)
	w.judge(a, ks, expected, out, j)
	if j.I%97 == 1 {
		w.mu.Lock()
		e.run.Sample(map[string]any{"case": j.String(), "expected_performed": expected, "log": append([]string(nil), w.log...)})
		w.mu.Unlock()
	}
}
