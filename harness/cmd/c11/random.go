package main

import (
	"fmt"
	"strings"
	"time"

	"verif/harness/vclient"
)

// Random sequences: three connections wander through the membership states of one group
// (dial, join with good or bad credentials, join while locked, join under a taken id,
// leave, get moderated or kicked by the helper operator, disconnect) and send privileged
// messages at every point.  A small model (member?, permissions held) says what must
// happen; the world is brought to logical quiescence after every step.

type slot struct {
	n   int
	gen int
	a   *actor
}

func (e *env) runRandom(j job) {
	run := e.run
	r := run.Rand(8, uint64(j.I))
	w := e.newWorld(fmt.Sprintf("b%dj%d", e.batch, j.I), "", []string{"present", "message"})
	w.unrestr = r.IntN(4) == 0
	var sets []permSet
	for _, ps := range permSets() {
		if ps.unrestricted {
			continue
		}
		if w.unrestr && ps.name == "role-present" {
			ps.model = []string{"present", "message", "token"}
		}
		sets = append(sets, ps)
		w.users["u-"+ps.name] = ps.cfg
	}
	w.desc = fmt.Sprintf("(random sequence, unrestricted-tokens=%v)", w.unrestr)
	defer w.close()
	if !w.setup() {
		return
	}
	slots := []*slot{{n: 0}, {n: 1}, {n: 2}}
	resync := func() {
		w.extra, w.actors = nil, nil
		for _, s := range slots {
			if s.a != nil && s.a.c != nil {
				w.extra = append(w.extra, s.a.c)
				w.actors = append(w.actors, s.a)
			}
		}
	}
	drop := func(s *slot) {
		if s.a != nil && s.a.c != nil {
			s.a.c.Close()
		}
		s.a = nil
		resync()
	}
	dial := func(s *slot, id string) bool {
		s.gen++
		if id == "" {
			id = fmt.Sprintf("a%dg%d", s.n, s.gen)
		}
		c := w.dial(id)
		if c == nil {
			return false
		}
		s.a = &actor{c: c, state: "never", permN: "-"}
		resync()
		run.Count("state_constructed:never", 1)
		return true
	}
	// waitGone: the server notices a closed socket whenever it does, and tells the members
	// one after the other from the goroutine that noticed; wait until every member has
	// been told, so that the departure is not taken for the effect of the next message
	waitGone := func(id string, marks map[*vclient.Client]int) bool {
		for c, from := range marks {
			_, ok := c.WaitForFrom(from, func(m vclient.Msg) bool {
				return m.Str("type") == "user" && m.Str("kind") == "delete" && m.Str("id") == id
			}, wd)
			if !ok {
				w.inconclusive("a member was never told that a disconnected member left")
				return false
			}
		}
		return true
	}
	joinAs := func(s *slot, ps permSet, password, group string) bool {
		a := s.a
		user := "u-" + ps.name
		if password == "" {
			password = pw(user)
		}
		want := "joined"
		switch {
		case group != w.g:
			want = "refused:no-such-group"
		case password != pw(user):
			want = "refused:bad-password"
		case a.c.ID == w.tgt.ID:
			want = "refused:duplicate-id"
		case w.locked && !has(ps.model, "op"):
			want = "refused:locked"
		}
		w.logf("actor %s joins %s as %s %v (model says: %s)", a.c.ID, group, user, ps.cfg, want)
		m, ok := join(a.c, group, user, password)
		if !ok {
			closed, cerr := a.c.Closed()
			w.inconclusive(fmt.Sprintf("no reply to a join (as %s, model %s; socket closed=%v %v; last events %s)", user, want, closed, cerr, brief(news(a.c, max(0, a.c.EventCount()-4)))))
			return false
		}
		got := m.Str("kind") == "join"
		if got != (want == "joined") {
			// admission itself is not this property's business, but the model is now useless
			w.inconclusive(fmt.Sprintf("join as %s answered %s (%v) where the model expected %s", user, m.Str("kind"), m["value"], want))
			return false
		}
		a.state, a.permN = want, ps.name
		if got {
			if !sameSet(m.StrList("permissions"), ps.model) {
				w.inconclusive(fmt.Sprintf("login as %v granted %v, the documentation says %v", ps.cfg, m.StrList("permissions"), ps.model))
				return false
			}
			a.member, a.perms, a.user = true, append([]string(nil), ps.model...), user
		} else {
			a.member, a.perms = false, nil
		}
		run.Count("state_constructed:"+want, 1)
		return true
	}
	applyModeration := func(t *actor, kind string) {
		switch kind {
		case "op":
			for _, p := range []string{"op", "record"} {
				if !has(t.perms, p) {
					t.perms = append(t.perms, p)
				}
			}
		case "unop":
			t.perms = without(without(t.perms, "op"), "record")
		case "present":
			if !has(t.perms, "present") {
				t.perms = append(t.perms, "present")
			}
		case "unpresent":
			t.perms = without(t.perms, "present")
			t.streams = nil
		case "shutup":
			t.perms = without(t.perms, "message")
		case "unshutup":
			if !has(t.perms, "message") {
				t.perms = append(t.perms, "message")
			}
		}
		if !strings.HasSuffix(t.permN, "*") {
			t.permN += "*"
		}
	}

	steps := 6 + r.IntN(j.Len-5)
	for step := 0; step < steps && !w.bad; step++ {
		s := slots[r.IntN(len(slots))]
		if s.a != nil && closedNow(s.a.c) {
			drop(s)
		}
		if s.a == nil {
			if !dial(s, "") {
				return
			}
		}
		a := s.a
		if w.locked && r.IntN(3) == 0 {
			if !w.ensureLocked(false) {
				return
			}
		} else if !w.locked && r.IntN(8) == 0 {
			if !w.ensureLocked(true) {
				return
			}
		}
		// a message of a random kind, with a sensible target
		message := func() {
			var ks kindSpec
			var tgt *vclient.Client
			var tslot *slot
			for {
				ks = kinds[r.IntN(len(kinds))]
				tgt, tslot = w.tgt, nil
				var mates []*slot
				for _, o := range slots {
					if o != s && o.a != nil && o.a.member && !closedNow(o.a.c) {
						mates = append(mates, o)
					}
				}
				if ks.target && len(mates) > 0 && (ks.name == "kick" || r.IntN(2) == 0) {
					tslot = mates[r.IntN(len(mates))]
					tgt = tslot.a.c
				}
				if ks.name == "kick" && tslot == nil {
					continue // the permanent bystanders are never kicked
				}
				break
			}
			expected := a.member && hasAll(a.perms, ks.needs)
			out := w.perform(a, ks, tgt, j, expected)
			w.judge(a, ks, expected, out, j)
			if !out.wd && !w.bad {
				run.Count("random_steps_judged", 1)
			}
			if out.performed && tslot != nil {
				switch ks.name {
				case "kick":
					drop(tslot)
				case "op", "unop", "present", "unpresent", "shutup", "unshutup":
					applyModeration(tslot.a, ks.name)
				}
			}
		}
		x := r.IntN(100)
		if !a.member {
			switch {
			case x < 40:
				if !joinAs(s, sets[r.IntN(len(sets))], "", w.g) {
					return
				}
			case x < 48:
				if !joinAs(s, sets[r.IntN(len(sets))], "wrong", w.g) {
					return
				}
			case x < 52:
				if !joinAs(s, sets[r.IntN(len(sets))], "", "nonexistent-"+w.tag) {
					return
				}
			case x < 58:
				// come back under the id of somebody who is in the group
				drop(s)
				if !dial(s, "tgt") {
					return
				}
				if !joinAs(s, sets[r.IntN(len(sets))], "", w.g) {
					return
				}
			case x < 94:
				message()
			default:
				w.logf("actor %s disconnects", a.c.ID)
				drop(s)
			}
			continue
		}
		switch {
		case x < 58:
			message()
		case x < 68:
			w.logf("actor %s leaves", a.c.ID)
			if !leave(a.c, w.g) {
				w.inconclusive("leave was not acknowledged")
				return
			}
			a.member, a.perms, a.streams, a.state = false, nil, nil, "left"
			run.Count("state_constructed:left", 1)
		case x < 88:
			kind := []string{"op", "unop", "present", "unpresent", "shutup", "unshutup"}[r.IntN(6)]
			perm := map[string]string{"op": "op", "unop": "op", "present": "present", "unpresent": "present", "shutup": "message", "unshutup": "message"}[kind]
			held := kind == "op" || kind == "present" || kind == "unshutup"
			if !w.moderate(a, kind, perm, held) {
				return
			}
			applyModeration(a, kind)
			if !held {
				run.Count("revocations_acknowledged", 1)
			}
		case x < 94:
			w.logf("helper kicks %s", a.c.ID)
			w.hlp.Send(vclient.Msg{"type": "useraction", "kind": "kick", "source": w.hlp.ID, "dest": a.c.ID, "value": "out"})
			deadline := time.Now().Add(wd)
			for !closedNow(a.c) && time.Now().Before(deadline) {
				time.Sleep(2 * time.Millisecond)
			}
			if !closedNow(a.c) {
				w.inconclusive("kicked member's socket was not closed")
				return
			}
			run.Count("state_constructed:kicked", 1)
			drop(s)
		default:
			w.logf("actor %s disconnects abruptly", a.c.ID)
			id, marks := a.c.ID, map[*vclient.Client]int{}
			for _, c := range w.clients() {
				if c != a.c && w.isMember(c) {
					marks[c] = c.EventCount()
				}
			}
			drop(s)
			if !waitGone(id, marks) {
				return
			}
		}
	}
}
