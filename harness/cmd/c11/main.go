// C11 - every privileged action requires its permission; non-members hold none.
//
// A table {message kind -> required permission(s) -> observable effect} is taken from the
// property text.  Children run the real server; every case builds a fresh group with
// observers (a helper operator, a permission-less observer, a target), puts an actor in
// an explicitly constructed membership state (never joined, join refused for eight
// different reasons, joined with a given permission set, left, kicked), lets it send one
// privileged message and, at logical quiescence, looks at the OTHER parties: the effect
// must be there iff the actor is a current member holding the required permission(s),
// and a refusal must leave every observer unchanged.  On top of the exhaustive matrix:
// token delegation and cross-group token editing/listing, revocation (sequential and
// racing with the notification), WHIP ingest over HTTP, and random sequences of <= 15
// steps driven against a small model of memberships and permissions.
package main

import (
	"encoding/json"
	"fmt"
	"os"
	"strings"
	"sync"
	"time"

	"verif/harness/vk"
	"verif/harness/vsrv"
)

const prop = "C11"

type job struct {
	T     string `json:"t"` // case, deleg, xgroup, revoke, race, whip, random
	I     int    `json:"i"` // index: selects the random stream, makes names unique
	Kind  string `json:"kind,omitempty"`
	State string `json:"state,omitempty"`
	Perms string `json:"perms,omitempty"`
	Solo  bool   `json:"solo,omitempty"` // run alone, after the pooled jobs (it may kill the server)
	Len   int    `json:"len,omitempty"`
}

func (j job) String() string {
	switch j.T {
	case "case":
		return fmt.Sprintf("case#%d %s in state %s with permissions %s", j.I, j.Kind, j.State, j.Perms)
	}
	return fmt.Sprintf("%s#%d", j.T, j.I)
}

type batchArgs struct {
	Index   int    `json:"index"`
	Class   string `json:"class"`
	Jobs    []job  `json:"jobs"`
	Workers int    `json:"workers"`
}

type env struct {
	run   *vk.Run
	srv   *vsrv.Server
	batch int
	class string
	offer string // a real SDP offer (pion), reused: no connectivity is ever established
	ufrag string
	pwd   string
}

func child() {
	run := vk.Start(prop)
	var a batchArgs
	if err := vk.ChildArgs(&a); err != nil {
		run.Inconclusive("child arguments: " + err.Error())
		os.Exit(0)
	}
	srv, err := vsrv.Start(vsrv.Config{Root: os.Getenv("VERIF_CHILD_DIR"), LogToFile: true})
	if err != nil {
		run.Inconclusive("server start: " + err.Error())
		os.Exit(0)
	}
	e := &env{run: run, srv: srv, batch: a.Index, class: a.Class}
	e.offer, e.ufrag, e.pwd, err = makeOffer()
	if err != nil {
		run.Inconclusive("cannot build an SDP offer: " + err.Error())
		os.Exit(0)
	}
	workers := a.Workers
	if workers <= 0 {
		workers = 12
	}
	var wg sync.WaitGroup
	ch := make(chan job)
	for i := 0; i < workers; i++ {
		wg.Add(1)
		go func() {
			defer wg.Done()
			for j := range ch {
				e.runJob(j)
			}
		}()
	}
	for _, j := range a.Jobs {
		if !j.Solo {
			ch <- j
		}
	}
	close(ch)
	wg.Wait()
	for _, j := range a.Jobs {
		if j.Solo {
			e.runJob(j)
		}
	}
	run.Count("children_completed:"+a.Class, 1)
	if undecidedShown.Load() > 0 {
		os.Exit(3) // completed, but the parent keeps our files for a post-mortem (--keep)
	}
	os.Exit(0)
}

func (e *env) runJob(j job) {
	switch j.T {
	case "case":
		e.runCase(j)
	case "deleg":
		e.runDelegation(j)
	case "xgroup":
		e.runCrossGroup(j)
	case "revoke":
		e.runRevocation(j)
	case "race":
		e.runRevocationRace(j)
	case "double":
		e.runDoubleRevocation(j)
	case "whip":
		e.runWhip(j)
	case "random":
		e.runRandom(j)
	}
}

var refusedReasons = []string{"bad-password", "locked", "full", "not-open", "expired", "no-operator", "duplicate-id", "no-such-group"}

// probeNote is what a child logs before every judged message; the parent uses it to say
// which case killed the server.
type probeNote struct {
	Kind     string `json:"kind"`
	State    string `json:"state"`
	Perms    string `json:"perms"`
	Expected bool   `json:"expected"`
	Job      string `json:"job"`
	Tag      string `json:"tag"`
}

func classifyCrash(run *vk.Run, b batchArgs, res vk.ChildResult) {
	// Scenarios run concurrently in a child.  The culprit is a message that was logged
	// (PROBE) and whose scenario never got to log what it observed: walk the notes
	// backwards, remembering which scenarios have reported since.
	reported := map[string]bool{}
	var pending []probeNote
	for i := len(res.Notes) - 1; i >= 0; i-- {
		n := res.Notes[i]
		if s, ok := strings.CutPrefix(n, "PROBE "); ok {
			var p probeNote
			if json.Unmarshal([]byte(s), &p) == nil && !reported[p.Tag] {
				pending = append(pending, p)
				reported[p.Tag] = true // older messages of that scenario were answered
			}
			continue
		}
		if tag, rest, ok := strings.Cut(n, " "); ok && strings.HasPrefix(rest, "OBSERVED") {
			reported[tag] = true
		}
	}
	var culprit *probeNote
	// a crash in the publishing path is caused by an 'offer' that had to be refused
	nc := 0
	for i := range pending {
		if pending[i].Kind == "offer" && !pending[i].Expected {
			if culprit == nil {
				culprit = &pending[i]
			}
			nc++
		}
	}
	if nc > 1 {
		culprit = nil // ambiguous: report the crash as such
	}
	replay := map[string]any{"mode": "batch", "args": b, "crash": res.CrashText, "last_commands": res.Notes}
	if culprit != nil && strings.Contains(res.Crash, "nil pointer") {
		what := fmt.Sprintf("a client in state %q (not a member) sent %q; instead of refusing it the server honoured the permission it should not hold and died: %s [%s]",
			culprit.State, culprit.Kind, res.Crash, culprit.Job)
		if r, ok := strings.CutPrefix(culprit.State, "refused:"); ok {
			run.Violation("refused-join-keeps-permissions:"+r, what+" (the join was refused, yet the connection kept the permissions of the user it authenticated as)", replay)
		} else {
			run.Violation("performed-without-permission:"+culprit.Kind+":"+culprit.State, what, replay)
		}
		return
	}
	run.Violation("server-crashed:"+res.Crash, "the server process died while handling privileged messages: "+res.Crash, replay)
}

func main() {
	if _, ok := vk.InChild(); ok {
		child()
		return
	}
	run := vk.Start(prop)
	var batches []batchArgs

	if rep, ok := vk.ReplayInput(); ok {
		m, _ := rep["replay"].(map[string]any)
		b, _ := json.Marshal(m["args"])
		var a batchArgs
		if json.Unmarshal(b, &a) != nil || len(a.Jobs) == 0 {
			fmt.Println("replay file carries no batch arguments")
			os.Exit(2)
		}
		batches = []batchArgs{a}
	} else {
		batches = plan(run)
	}

	var wg sync.WaitGroup
	sem := make(chan struct{}, run.Pick(8, 12))
	for _, b := range batches {
		wg.Add(1)
		sem <- struct{}{}
		go func(b batchArgs) {
			defer wg.Done()
			defer func() { <-sem }()
			res := run.RunChild("batch", b, 12*time.Minute)
			switch {
			case strings.HasPrefix(res.Crash, "harness-crash:"):
				run.Inconclusive(fmt.Sprintf("batch %d (%s): the harness itself crashed: %s\n%s", b.Index, b.Class, res.Crash, res.CrashText))
			case res.Crash != "":
				classifyCrash(run, b, res)
			case res.TimedOut:
				run.Inconclusive(fmt.Sprintf("batch %d (%s): watchdog fired", b.Index, b.Class))
			case res.ExitCode == 3:
				run.Count("batches_completed", 1)
				run.Count("batches_with_undecided_scenarios", 1)
			case res.ExitCode != 0:
				run.Inconclusive(fmt.Sprintf("batch %d (%s): child exited with %d", b.Index, b.Class, res.ExitCode))
			default:
				run.Count("batches_completed", 1)
				// nothing to investigate: do not let the scratch directory grow
				os.Remove(res.OutFile)
				os.Remove(res.ErrFile)
				os.RemoveAll(strings.TrimSuffix(res.OutFile, ".out") + ".d")
			}
		}(b)
	}
	wg.Wait()

	njobs := 0
	for _, b := range batches {
		njobs += len(b.Jobs)
	}
	if und := run.Counter("undecided_scenarios"); und > int64(njobs/1000+2) {
		run.Inconclusive(fmt.Sprintf("%d of %d scenarios were left undecided by watchdogs or lost connections (see undecided_example_* in the evidence)", und, njobs))
	}
	if _, replaying := vk.ReplayInput(); !replaying {
		for _, k := range kinds {
			run.FloorCounter("performed:"+k.name, 1)
			run.FloorCounter("refused:"+k.name, 1)
		}
		for _, r := range refusedReasons {
			run.FloorCounter("state_constructed:refused:"+r, 1)
		}
		for _, s := range []string{"never", "left", "kicked", "joined"} {
			run.FloorCounter("state_constructed:"+s, 1)
		}
		run.FloorCounter("whip_accepted", 1)
		run.FloorCounter("whip_refused", 1)
		run.FloorCounter("whip_resource_refused", 1)
		run.FloorCounter("token_delegation_refused", 1)
		run.FloorCounter("token_delegation_performed", 1)
		run.FloorCounter("token_honoured_with_exact_permissions", 1)
		run.FloorCounter("cross_group_edit_attempts", 1)
		run.FloorCounter("cross_group_list_checked", 1)
		run.FloorCounter("revocations_acknowledged", 1)
		run.FloorCounter("refused_after_revocation", 1)
		run.FloorCounter("refused_after_double_revocation", 1)
		run.FloorCounter("streams_closed_on_unpresent", 1)
		run.FloorCounter("random_steps_judged", 50)
	}
	run.Assume("logical quiescence = four barrier rounds through every member's FIFO action queue (a numbered 'setdata' by the helper operator, echoed to every member as 'joined change') followed by a ping/pong per connection; the only timer in the path, the 200 ms delay before a new stream is announced, is waited for explicitly")
	run.Assume("watchdogs (90 s) never give a violation: a scenario they interrupt is undecided; up to 2 + 0.1% undecided scenarios are tolerated (the server drops a connection whose socket write does not complete within 500 ms, which happens on an overloaded machine), more make the run inconclusive")
	run.Assume("raw permission arrays in a group file grant exactly the listed permissions; role names grant what galene.md documents (op: everything but admin, incl. record when allow-recording; present: present+message; message; observe: nothing; caption)")
	run.Assume("the stateful token store is read through token.List/token.Get in the server process; the harness serialises its own token operations with those it asks the server to perform")
	run.Assume("offers carry a real pion SDP without candidates: whether publishing was performed is read from the actor's reply (answer vs abort), media never flows")
	run.Finish("exploration", "exhaustive matrix message kind (24: chat, private chat, caption, usermessage broadcast/private, op, unop, present, unpresent, shutup, unshutup, kick, identify, lock, unlock, clearchat, setdata, subgroups, record, unrecord, maketoken, edittoken, listtokens, offer) x membership state (never, 8 refused-join reasons, joined, left, kicked) x permission set (full, full minus each single permission, each single permission, none, the five roles, present with unrestricted-tokens), one fresh group per case, effects read at observers at logical quiescence; plus token delegation cases (each unheld permission, foreign group, no expiry, taken username, chosen token string, subgroups), cross-group edittoken/listtokens, revocation sequential and racing with the notification, WHIP POST/PATCH/DELETE with every credential class, and seeded random sequences of <= 15 steps against a membership/permission model; evaluations = (state, permissions, message) cases judged; distinct_nontrivial = distinct (kind, state, permission class, expected outcome) tuples")
}

// plan builds the fixed case list of the tier and cuts it into child batches.
func plan(run *vk.Run) []batchArgs {
	var safe, random []job
	n := 0
	next := func() int { n++; return n }
	rounds := run.Pick(2, 60)
	for round := 0; round < rounds; round++ {
		for _, k := range kinds {
			for _, ps := range permSets() {
				safe = append(safe, job{T: "case", I: next(), Kind: k.name, State: "joined", Perms: ps.name})
			}
			for _, st := range []string{"never", "left", "kicked"} {
				safe = append(safe, job{T: "case", I: next(), Kind: k.name, State: st, Perms: "full"})
			}
		}
	}
	for i := 0; i < run.Pick(60, 6000); i++ {
		safe = append(safe, job{T: "deleg", I: next()})
	}
	for i := 0; i < run.Pick(40, 3000); i++ {
		safe = append(safe, job{T: "xgroup", I: next()})
	}
	for i := 0; i < run.Pick(90, 10000); i++ {
		safe = append(safe, job{T: "revoke", I: next()})
	}
	for i := 0; i < run.Pick(60, 10000); i++ {
		safe = append(safe, job{T: "race", I: next()})
	}
	for i := 0; i < run.Pick(36, 3000); i++ {
		safe = append(safe, job{T: "double", I: next()})
	}
	for i := 0; i < run.Pick(40, 4000); i++ {
		safe = append(safe, job{T: "whip", I: next()})
	}
	for i := 0; i < run.Pick(1500, 300000); i++ {
		random = append(random, job{T: "random", I: next(), Len: 15})
	}

	var out []batchArgs
	idx := 0
	cut := func(class string, jobs []job, per int, workers int) {
		// round-robin so that every batch sees every kind
		nb := (len(jobs) + per - 1) / per
		bs := make([]batchArgs, nb)
		for i, j := range jobs {
			bs[i%nb].Jobs = append(bs[i%nb].Jobs, j)
		}
		for _, b := range bs {
			b.Index, b.Class, b.Workers = idx, class, workers
			idx++
			out = append(out, b)
		}
	}
	// one child per refused-join reason and round: all kinds, 'offer' last and alone
	for round := 0; round < rounds; round++ {
		for _, r := range refusedReasons {
			var js []job
			for _, k := range kinds {
				js = append(js, job{T: "case", I: next(), Kind: k.name, State: "refused:" + r, Perms: "full-minus-op", Solo: k.name == "offer"})
			}
			out = append(out, batchArgs{Index: idx, Class: "refused", Jobs: js, Workers: 12})
			idx++
		}
	}
	cut("matrix", safe, run.Pick(150, 300), 16)
	cut("random", random, run.Pick(100, 250), 12)
	return out
}
