package main

import (
	"fmt"
	"math/rand/v2"
	"strings"
	"sync"
	"sync/atomic"
	"time"

	"github.com/jech/galene/token"

	"verif/harness/vclient"
)

// ---------------------------------------------------------------------------------
// token delegation

func subset(r *rand.Rand, l []string) []string {
	out := []string{}
	for _, x := range l {
		if r.IntN(2) == 0 {
			out = append(out, x)
		}
	}
	return out
}

// tokenRequest sends a maketoken with the given value and returns the tokens that
// appeared in any of the watched groups, and the reply.
func (w *world) tokenRequest(a *actor, value map[string]any, watch []string) (created []*token.Stateful, reply vclient.Msg, ok bool) {
	// the whole exchange is atomic with respect to the token operations of other
	// scenarios (one of the watched groups, "", is shared with them)
	tokenMu.Lock()
	defer tokenMu.Unlock()
	before := map[string]bool{}
	for _, g := range watch {
		for n := range tokenNames(g) {
			before[n] = true
		}
	}
	from := a.c.EventCount()
	w.logf("ACTOR %s [holding %v] -> maketoken %v", a.c.ID, a.perms, value)
	a.c.Send(vclient.Msg{"type": "groupaction", "kind": "maketoken", "source": a.c.ID, "value": value})
	if !ping(a.c) {
		w.inconclusive("no pong after maketoken")
		return nil, nil, false
	}
	for _, m := range news(a.c, from) {
		if m.Str("type") == "usermessage" && m.Str("kind") == "token" {
			reply = m
		}
	}
	for _, g := range watch {
		for n, t := range tokenNames(g) {
			if !before[n] {
				created = append(created, t)
			}
		}
	}
	w.logf("OBSERVED %d new token(s); reply error=%q value=%v", len(created), reply.Str("error"), reply["value"])
	return created, reply, true
}

func (e *env) runDelegation(j job) {
	run := e.run
	r := run.Rand(3, uint64(j.I))
	held := append([]string{"token"}, subset(r, []string{"op", "present", "message", "caption", "record"})...)
	w := e.newWorld(fmt.Sprintf("b%dj%d", e.batch, j.I), "", []string{"present", "message"})
	w.users["act"] = held
	w.desc = fmt.Sprintf("(token delegation by a member holding %v)", held)
	defer w.close()
	if !w.setup() {
		return
	}
	w.e.srv.WriteGroup(w.g+"/sub", map[string]any{"users": map[string]any{"hlp": map[string]any{"password": pw("hlp"), "permissions": "op"}}})
	a := w.makeActor("joined", permSet{name: fmt.Sprintf("%v", held), cfg: held, model: held}, "")
	if a == nil {
		return
	}
	watch := []string{w.g, w.h, "", w.g + "/sub"}
	good := subset(r, without(held, "token"))
	if r.IntN(3) == 0 {
		good = append(good, "token")
	}
	base := func() map[string]any {
		return map[string]any{"group": w.g, "permissions": good, "expires": far(time.Duration(1+r.IntN(48)) * time.Hour)}
	}
	type tc struct {
		name   string
		value  map[string]any
		refuse bool
		key    string
		ok     func(t *token.Stateful) bool // for cases that may be performed in a restricted way
	}
	var cases []tc
	cases = append(cases, tc{name: "held-subset", value: base()})
	{
		v := base()
		v["username"] = "guest-" + w.tag
		cases = append(cases, tc{name: "held-subset-with-free-username", value: v})
	}
	for _, p := range append(append([]string{}, allPerms...), "admin", "system") {
		if has(held, p) {
			continue
		}
		v := base()
		v["permissions"] = append(append([]string{}, good...), p)
		cases = append(cases, tc{name: "unheld:" + p, value: v, refuse: true, key: "token-delegates-unheld-permission"})
	}
	for _, g := range []string{w.h, "", w.g + "/sub"} {
		v := base()
		v["group"] = g
		n := "foreign-group"
		if g == "" {
			n = "root-group"
		} else if strings.HasSuffix(g, "/sub") {
			n = "subgroup"
		}
		cases = append(cases, tc{name: n, value: v, refuse: true, key: "token-for-other-group"})
	}
	{
		v := base()
		delete(v, "expires")
		cases = append(cases, tc{name: "no-expiry", value: v, refuse: true, key: "token-without-expiry"})
		v = base()
		v["username"] = "obs"
		cases = append(cases, tc{name: "taken-username", value: v, refuse: true, key: "token-with-configured-username"})
		v = base()
		v["token"] = "chosen-" + w.tag
		cases = append(cases, tc{name: "chosen-token-string", value: v, refuse: true, key: "token-string-chosen-by-client"})
		v = base()
		v["includeSubgroups"] = true
		// either refused, or created for this group alone
		cases = append(cases, tc{name: "include-subgroups", value: v, key: "token-hierarchical",
			ok: func(t *token.Stateful) bool { return !t.IncludeSubgroups && t.Group == w.g }})
	}
	r.Shuffle(len(cases), func(i, k int) { cases[i], cases[k] = cases[k], cases[i] })
	for _, c := range cases {
		if w.bad {
			return
		}
		created, reply, ok := w.tokenRequest(a, c.value, watch)
		if !ok {
			return
		}
		run.Eval(1)
		run.Distinct(fmt.Sprintf("maketoken|%s|refuse=%v|op=%v", strings.SplitN(c.name, ":", 2)[0], c.refuse, has(held, "op")))
		what := fmt.Sprintf("a member holding %v asked for a token %v", held, c.value)
		switch {
		case c.refuse && len(created) > 0:
			run.Violation(c.key, fmt.Sprintf("%s (%s) and the server created %+v", what, c.name, *created[0]), w.replay(j))
		case c.refuse:
			run.Count("token_delegation_refused", 1)
			if c.name == "chosen-token-string" {
				// not in the store under that name either
				if t, _, err := token.Get("chosen-" + w.tag); err == nil && t != nil {
					run.Violation(c.key, what+" and the chosen string is now a token", w.replay(j))
				}
			}
		case c.ok != nil:
			if len(created) > 0 && !c.ok(created[0]) {
				run.Violation(c.key, fmt.Sprintf("%s and the server created %+v", what, *created[0]), w.replay(j))
			} else {
				run.Count("token_delegation_restricted_or_refused", 1)
			}
		default:
			want, _ := c.value["permissions"].([]string)
			v, _ := reply["value"].(map[string]any)
			ts, _ := v["token"].(string)
			if len(created) != 1 || reply.Str("error") != "" || created[0].Token != ts || !sameSet(created[0].Permissions, want) || created[0].Group != w.g {
				run.Violation("refused-despite-permission:maketoken", fmt.Sprintf("%s, all of which it holds, for its own group, with an expiry: reply error=%q value=%v, %d token(s) created", what, reply.Str("error"), reply["value"], len(created)), w.replay(j))
				continue
			}
			run.Count("token_delegation_performed", 1)
			n := w.dial(fmt.Sprintf("inv%d", nonceCtr.Add(1)))
			if n == nil {
				return
			}
			jm, ok := joinToken(n, w.g, "invitee-"+w.tag, ts)
			if ok && jm.Str("kind") == "join" {
				leave(n, w.g)
			}
			n.Close()
			if !ok {
				w.inconclusive("no reply to a token join")
				return
			}
			if jm.Str("kind") != "join" || !sameSet(jm.StrList("permissions"), want) {
				run.Violation("token-grants-other-than-delegated", fmt.Sprintf("%s; joining with it answered %s with permissions %v", what, jm.Str("kind"), jm.StrList("permissions")), w.replay(j))
			} else {
				run.Count("token_honoured_with_exact_permissions", 1)
			}
			// the same token must be worthless in another group
			n2 := w.dial(fmt.Sprintf("inv%d", nonceCtr.Add(1)))
			if n2 == nil {
				return
			}
			jm2, ok := joinToken(n2, w.h, "invitee-"+w.tag, ts)
			if ok && jm2.Str("kind") == "join" {
				run.Violation("token-for-other-group", what+"; the token was honoured in another group", w.replay(j))
			} else if ok {
				run.Count("token_refused_in_other_group", 1)
			}
			n2.Close()
		}
	}
}

// ---------------------------------------------------------------------------------
// edittoken / listtokens reach only the member's own group

func (e *env) runCrossGroup(j job) {
	run := e.run
	r := run.Rand(4, uint64(j.I))
	ps := permSetByName([]string{"full", "role-op", "full-minus-present", "full-minus-record"}[r.IntN(4)])
	w := e.newWorld(fmt.Sprintf("b%dj%d", e.batch, j.I), "", []string{"present", "message"})
	parent := ""
	if j.I%2 == 0 {
		// the actor's group is a subgroup (with a definition of its own); its parent holds a
		// token that extends to subgroups: still not a token of the actor's own group
		parent = "par-" + w.tag
		w.g = parent + "/sub"
	}
	w.users["act"] = ps.cfg
	w.desc = "(operator of " + w.g + " against tokens of " + w.h + ")"
	defer w.close()
	if !w.setup() {
		return
	}
	expG := time.Now().Add(2 * time.Hour).UTC().Truncate(time.Second)
	expH := time.Now().Add(5 * time.Hour).UTC().Truncate(time.Second)
	tg, ok1 := w.mkToken(w.g, []string{"message"}, expG, nil)
	th, ok2 := w.mkToken(w.h, []string{"present", "message"}, expH, nil)
	if !ok1 || !ok2 {
		return
	}
	if parent != "" {
		name := w.newTokenName()
		exp := expH
		tokenMu.Lock()
		_, err := token.Update(&token.Stateful{Token: name, Group: parent, IncludeSubgroups: true, Permissions: []string{"op", "present", "message"}, Expires: &exp}, "")
		tokenMu.Unlock()
		if err != nil {
			w.inconclusive("cannot create a token in-process: " + err.Error())
			return
		}
		e.run.Count("cross_group_parent_tokens_with_subgroups", 1)
	}
	a := w.makeActor("joined", ps, "")
	if a == nil {
		return
	}
	edit := func(name string, field string, t time.Time) (vclient.Msg, bool) {
		from := a.c.EventCount()
		v := map[string]any{"token": name, field: t.Format(time.RFC3339)}
		w.logf("ACTOR %s [holding %v] -> edittoken %v", a.c.ID, a.perms, v)
		tokenMu.Lock()
		a.c.Send(vclient.Msg{"type": "groupaction", "kind": "edittoken", "source": a.c.ID, "value": v})
		ok := ping(a.c)
		tokenMu.Unlock()
		if !ok {
			w.inconclusive("no pong after edittoken")
			return nil, false
		}
		var reply vclient.Msg
		for _, m := range news(a.c, from) {
			if m.Str("type") == "usermessage" && m.Str("kind") == "token" {
				reply = m
			}
		}
		w.logf("OBSERVED reply error=%q value=%v", reply.Str("error"), reply["value"])
		return reply, true
	}
	steps := []string{"edit-foreign", "edit-own", "list"}
	r.Shuffle(len(steps), func(i, k int) { steps[i], steps[k] = steps[k], steps[i] })
	for _, st := range steps {
		if w.bad {
			return
		}
		run.Eval(1)
		run.Distinct("xgroup|" + st + "|" + ps.name)
		switch st {
		case "edit-foreign":
			field := []string{"expires", "not-before"}[r.IntN(2)]
			nt := time.Now().Add(time.Duration(10+r.IntN(20)) * time.Hour).UTC().Truncate(time.Second)
			if field == "not-before" {
				nt = time.Now().Add(-time.Duration(10+r.IntN(20)) * time.Hour).UTC().Truncate(time.Second)
			}
			reply, ok := edit(th, field, nt)
			if !ok {
				return
			}
			run.Count("cross_group_edit_attempts", 1)
			t, _, err := token.Get(th)
			if err != nil || t == nil {
				run.Violation("edittoken-other-group", fmt.Sprintf("an operator of %s sent edittoken for token %s of group %s and the token is gone", w.g, th, w.h), w.replay(j))
				continue
			}
			changed := t.Expires == nil || !t.Expires.Equal(expH) || t.NotBefore != nil
			leaked := false
			if v, _ := reply["value"].(map[string]any); v != nil && reply.Str("error") == "" {
				leaked = v["group"] == w.h
			}
			if changed || leaked {
				run.Violation("edittoken-other-group", fmt.Sprintf("a member of %s (holding %v) sent edittoken {token:%s, %s:%s}; the token belongs to group %s and was edited there: stored expires=%v not-before=%v (was expires=%v, no not-before); reply error=%q value=%v",
					w.g, a.perms, th, field, nt.Format(time.RFC3339), w.h, t.Expires, t.NotBefore, expH, reply.Str("error"), reply["value"]), w.replay(j))
				expH = *t.Expires
			} else {
				run.Count("cross_group_edit_refused", 1)
			}
		case "edit-own":
			nt := time.Now().Add(time.Duration(10+r.IntN(20)) * time.Hour).UTC().Truncate(time.Second)
			reply, ok := edit(tg, "expires", nt)
			if !ok {
				return
			}
			t, _, err := token.Get(tg)
			if err != nil || t == nil || t.Expires == nil || !t.Expires.Equal(nt) || reply.Str("error") != "" {
				run.Violation("refused-despite-permission:edittoken", fmt.Sprintf("an operator holding %v could not move the expiry of a token of its own group: reply error=%q value=%v", a.perms, reply.Str("error"), reply["value"]), w.replay(j))
			} else {
				run.Count("own_group_edit_performed", 1)
			}
		case "list":
			from := a.c.EventCount()
			w.logf("ACTOR %s -> listtokens", a.c.ID)
			a.c.Send(vclient.Msg{"type": "groupaction", "kind": "listtokens", "source": a.c.ID})
			if !ping(a.c) {
				w.inconclusive("no pong after listtokens")
				return
			}
			var reply vclient.Msg
			for _, m := range news(a.c, from) {
				if m.Str("type") == "usermessage" && m.Str("kind") == "tokenlist" {
					reply = m
				}
			}
			l, _ := reply["value"].([]any)
			own, foreign := false, ""
			for _, x := range l {
				tm, _ := x.(map[string]any)
				if tm == nil {
					continue
				}
				if tm["token"] == tg {
					own = true
				}
				if g, _ := tm["group"].(string); g != w.g {
					foreign = fmt.Sprintf("%v (group %q)", tm["token"], g)
				}
				if tm["token"] == th {
					foreign = fmt.Sprintf("%v (group %q)", tm["token"], tm["group"])
				}
			}
			w.logf("OBSERVED token list with %d entries, error=%q", len(l), reply.Str("error"))
			switch {
			case foreign != "":
				run.Violation("listtokens-other-group", fmt.Sprintf("listtokens by a member of %s returned token %s", w.g, foreign), w.replay(j))
			case !own || reply.Str("error") != "":
				run.Violation("refused-despite-permission:listtokens", fmt.Sprintf("an operator holding %v did not get the tokens of its own group: error=%q, %d entries", a.perms, reply.Str("error"), len(l)), w.replay(j))
			default:
				run.Count("cross_group_list_checked", 1)
			}
		}
	}
}

// ---------------------------------------------------------------------------------
// revocation

type revSpec struct {
	revoke, grant, perm string
	follow              []string
}

var revSpecs = []revSpec{
	{"unpresent", "present", "present", []string{"offer"}},
	{"shutup", "unshutup", "message", []string{"chat", "usermessage", "chat-to"}},
	{"unop", "op", "op", []string{"lock", "kick", "clearchat", "op", "setdata", "identify", "subgroups", "unpresent", "edittoken", "listtokens"}},
}

// moderate makes the helper change the actor's permissions and waits until the actor has
// been notified.
func (w *world) moderate(a *actor, kind, perm string, wantHeld bool) bool {
	// flush first: afterwards the next 'joined change' the actor receives is the
	// notification of this very action, not that of an earlier lock or moderation
	if !w.quiesce() {
		return false
	}
	from := a.c.EventCount()
	w.logf("helper %s %s", kind, a.c.ID)
	w.hlp.Send(vclient.Msg{"type": "useraction", "kind": kind, "source": w.hlp.ID, "dest": a.c.ID})
	m, ok := a.c.WaitForFrom(from, func(m vclient.Msg) bool {
		return m.Str("type") == "joined" && m.Str("kind") == "change"
	}, wd)
	if !ok {
		w.inconclusive(fmt.Sprintf("the actor was never notified of %s", kind))
		return false
	}
	if has(m.StrList("permissions"), perm) != wantHeld {
		w.bad = true
		w.mu.Lock()
		l := append([]string(nil), w.log...)
		w.mu.Unlock()
		w.e.run.Violation("partial-effect:"+kind, fmt.Sprintf("an operator sent %q for a member; the member was notified, but of permissions %v", kind, m.StrList("permissions")), map[string]any{"batch": w.e.batch, "scenario": w.desc, "log": l})
		return false
	}
	w.logf("actor notified: permissions now %v", m.StrList("permissions"))
	if wantHeld {
		if !has(a.perms, perm) {
			a.perms = append(a.perms, perm)
		}
		if kind == "op" && !has(a.perms, "record") {
			a.perms = append(a.perms, "record") // groups of the harness allow recording
		}
	} else {
		a.perms = without(a.perms, perm)
		if kind == "unop" {
			a.perms = without(a.perms, "record")
		}
	}
	return true
}

func (e *env) runRevocation(j job) {
	run := e.run
	r := run.Rand(5, uint64(j.I))
	spec := revSpecs[j.I%len(revSpecs)]
	follow := kindByName(spec.follow[r.IntN(len(spec.follow))])
	w := e.newWorld(fmt.Sprintf("b%dj%d", e.batch, j.I), "", targetPermsFor(follow.name))
	w.users["act"] = allPerms
	w.desc = fmt.Sprintf("(revocation: %s, then %s; then %s, then %s again)", spec.revoke, follow.name, spec.grant, follow.name)
	defer w.close()
	if !w.setup() {
		return
	}
	a := w.makeActor("joined", permSetByName("full"), "")
	if a == nil {
		return
	}
	// before: the action works (and, for 'present', leaves a stream open)
	out := w.perform(a, follow, w.tgt, j, true)
	w.judge(a, follow, true, out, j)
	if out.wd || w.bad || !out.performed {
		return
	}
	if follow.name == "kick" || closedNow(w.tgt) {
		// the target is gone: bring a new one
		w.tgt = w.dial("tgt2")
		if w.tgt == nil || !w.joinAs(w.tgt, "tgt") {
			return
		}
	}
	if !w.moderate(a, spec.revoke, spec.perm, false) {
		return
	}
	run.Count("revocations_acknowledged", 1)
	a.state = "revoked:" + spec.perm
	openStreams := append([]string(nil), a.streams...)
	from := 0
	out = w.perform(a, follow, w.tgt, j, false)
	w.judge(a, follow, false, out, j)
	if out.wd || w.bad {
		return
	}
	if !out.performed {
		run.Count("refused_after_revocation", 1)
	}
	if spec.perm == "present" {
		// losing 'present' closes the streams: the publisher is told to abort each of them
		for _, id := range openStreams {
			run.Eval(1)
			run.Distinct("streams-closed-on-unpresent")
			_, ok := a.c.WaitForFrom(from, func(m vclient.Msg) bool { return m.Str("type") == "abort" && m.Str("id") == id }, 0)
			if !ok {
				run.Violation("stream-survives-unpresent", fmt.Sprintf("a publisher lost 'present' (and was told so) but was never told to abort its stream %s", id), w.replay(j))
				continue
			}
			// and the stream is really gone: renegotiating it is refused like a new one
			mk := a.c.EventCount()
			w.logf("ACTOR %s [revoked:present] -> offer (renegotiation of %s)", a.c.ID, id)
			a.c.Send(vclient.Msg{"type": "offer", "id": id, "label": "camera", "source": a.c.ID, "sdp": e.offer})
			if !ping(a.c) {
				w.inconclusive("no pong after a renegotiation offer")
				return
			}
			answered := false
			for _, m := range news(a.c, mk) {
				if m.Str("type") == "answer" && m.Str("id") == id {
					answered = true
				}
			}
			if answered {
				run.Violation("performed-without-permission:offer:revoked:present", "after losing 'present' the renegotiation of the old stream was answered", w.replay(j))
			} else {
				run.Count("streams_closed_on_unpresent", 1)
			}
		}
		a.streams = nil
	}
	// granted again: works again
	if !w.moderate(a, spec.grant, spec.perm, true) {
		return
	}
	a.state = "regranted:" + spec.perm
	exp := hasAll(a.perms, follow.needs)
	if closedNow(w.tgt) {
		return
	}
	out = w.perform(a, follow, w.tgt, j, exp)
	w.judge(a, follow, exp, out, j)
}

// runDoubleRevocation: an operator revokes two different permissions of one member
// back to back (both messages are in the member's queue before it handles either).  Both
// revocations must hold afterwards: the member is told of a permission set lacking both,
// and the action that needs the FIRST revoked permission is refused.
func (e *env) runDoubleRevocation(j job) {
	run := e.run
	r := run.Rand(15, uint64(j.I))
	pairs := [][2]revSpec{{revSpecs[1], revSpecs[0]}, {revSpecs[0], revSpecs[1]}, {revSpecs[1], revSpecs[2]}, {revSpecs[2], revSpecs[1]}, {revSpecs[0], revSpecs[2]}, {revSpecs[2], revSpecs[0]}}
	pr := pairs[j.I%len(pairs)]
	first, second := pr[0], pr[1]
	follow := kindByName(first.follow[r.IntN(len(first.follow))])
	w := e.newWorld(fmt.Sprintf("b%dj%d", e.batch, j.I), "", targetPermsFor(follow.name))
	w.users["act"] = allPerms
	w.desc = fmt.Sprintf("(double revocation: %s and %s back to back, then %s)", first.revoke, second.revoke, follow.name)
	defer w.close()
	if !w.setup() {
		return
	}
	a := w.makeActor("joined", permSetByName("full"), "")
	if a == nil {
		return
	}
	if !w.quiesce() {
		return
	}
	from := a.c.EventCount()
	w.logf("helper %s %s and, without waiting, %s %s", first.revoke, a.c.ID, second.revoke, a.c.ID)
	w.hlp.Send(vclient.Msg{"type": "useraction", "kind": first.revoke, "source": w.hlp.ID, "dest": a.c.ID})
	w.hlp.Send(vclient.Msg{"type": "useraction", "kind": second.revoke, "source": w.hlp.ID, "dest": a.c.ID})
	if !w.quiesce() {
		return
	}
	var last []string
	seen := 0
	for _, m := range news(a.c, from) {
		if m.Str("type") == "joined" && m.Str("kind") == "change" {
			last = m.StrList("permissions")
			seen++
		}
	}
	run.Eval(1)
	if seen == 0 {
		w.inconclusive("the actor was never notified of the revocations")
		return
	}
	w.logf("actor notified %d times, permissions now %v", seen, last)
	if has(last, first.perm) || has(last, second.perm) {
		w.mu.Lock()
		l := append([]string(nil), w.log...)
		w.mu.Unlock()
		run.Violation("revocation-undone-by-next-revocation", fmt.Sprintf("an operator sent %q and then %q for one member; at quiescence the member's last notification lists permissions %v", first.revoke, second.revoke, last), map[string]any{"batch": e.batch, "scenario": w.desc, "log": l})
		return
	}
	a.perms = without(without(a.perms, first.perm), second.perm)
	if first.revoke == "unop" || second.revoke == "unop" {
		a.perms = without(a.perms, "record")
	}
	a.state = "revoked:" + first.perm
	if closedNow(w.tgt) {
		return
	}
	out := w.perform(a, follow, w.tgt, j, false)
	w.judge(a, follow, false, out, j)
	if !out.wd && !w.bad && !out.performed {
		run.Count("refused_after_double_revocation", 1)
	}
}

// runRevocationRace: the actor keeps sending while the revocation is under way.  What was
// sent after the actor had been notified must be refused; before that either outcome is fine.
func (e *env) runRevocationRace(j job) {
	run := e.run
	r := run.Rand(6, uint64(j.I))
	offer := j.I%2 == 0
	perm, revoke := "message", "shutup"
	if offer {
		perm, revoke = "present", "unpresent"
	}
	w := e.newWorld(fmt.Sprintf("b%dj%d", e.batch, j.I), "", []string{"present", "message"})
	w.users["act"] = allPerms
	w.desc = fmt.Sprintf("(%s racing with a burst of messages)", revoke)
	defer w.close()
	if !w.setup() {
		return
	}
	a := w.makeActor("joined", permSetByName("full"), "")
	if a == nil {
		return
	}
	var acked atomic.Bool
	a.c.OnMsg = func(ev vclient.Event) {
		if ev.M.Str("type") == "joined" && ev.M.Str("kind") == "change" && !has(ev.M.StrList("permissions"), perm) {
			acked.Store(true)
		}
	}
	if !w.quiesce() {
		return
	}
	n := 12
	if offer {
		n = 6
	}
	type sent struct {
		id    string
		after bool
	}
	var msgs []sent
	fire := r.IntN(n)
	markObs := w.obs.EventCount()
	markAct := a.c.EventCount()
	var wg sync.WaitGroup
	for i := 0; i < n+4; i++ {
		if i == fire {
			wg.Add(1)
			go func() {
				defer wg.Done()
				w.logf("helper %s %s (racing)", revoke, a.c.ID)
				w.hlp.Send(vclient.Msg{"type": "useraction", "kind": revoke, "source": w.hlp.ID, "dest": a.c.ID})
			}()
		}
		if i >= n && !acked.Load() {
			// make sure some messages are sent after the notification
			deadline := time.Now().Add(wd)
			for !acked.Load() && time.Now().Before(deadline) {
				time.Sleep(time.Millisecond)
			}
		}
		id := fmt.Sprintf("R%d-%s-%d", nonceCtr.Add(1), w.tag, i)
		after := acked.Load()
		var pn string
		if offer {
			pn = fmt.Sprintf(`PROBE {"kind":"offer","state":"racing-unpresent","perms":"full","expected":%v,"job":%q,"tag":%q}`, !after, j.String(), w.tag)
			run.Note(pn)
			w.logf("ACTOR -> offer %s (sent after the notification: %v)", id, after)
			a.c.Send(vclient.Msg{"type": "offer", "id": id, "label": "camera", "source": a.c.ID, "sdp": e.offer})
		} else {
			w.logf("ACTOR -> chat %s (sent after the notification: %v)", id, after)
			a.c.Send(vclient.Msg{"type": "chat", "source": a.c.ID, "dest": "", "value": id})
		}
		msgs = append(msgs, sent{id, after})
		if d := r.IntN(3); d > 0 {
			time.Sleep(time.Duration(d) * 300 * time.Microsecond)
		}
	}
	wg.Wait()
	if !ping(a.c) {
		w.inconclusive("no pong after the burst")
		return
	}
	if !w.quiesce() {
		return
	}
	if !acked.Load() {
		w.inconclusive("the actor was never notified of the revocation")
		return
	}
	run.Count("revocations_acknowledged", 1)
	done := map[string]bool{}
	if offer {
		for _, m := range news(a.c, markAct) {
			if m.Str("type") == "answer" {
				done[m.Str("id")] = true
			}
		}
	} else {
		for _, m := range news(w.obs, markObs) {
			if v, _ := m["value"].(string); v != "" && m.Str("type") == "chat" {
				done[v] = true
			}
		}
	}
	kind := "chat"
	if offer {
		kind = "offer"
	}
	nAfter := 0
	for _, s := range msgs {
		run.Eval(1)
		switch {
		case s.after && done[s.id]:
			run.Violation("performed-without-permission:"+kind+":revoked:"+perm, fmt.Sprintf("a %s sent after the sender had been told it lost %q was performed (%s)", kind, perm, s.id), w.replay(j))
		case s.after:
			nAfter++
			run.Count("refused_after_revocation", 1)
			run.Count("refused:"+kind, 1)
		case done[s.id]:
			run.Count("race_performed_before_notification", 1)
		default:
			run.Count("race_refused_before_notification", 1)
		}
	}
	run.Distinct(fmt.Sprintf("race|%s|after>0=%v", kind, nAfter > 0))
}

// ---------------------------------------------------------------------------------
// WHIP

func userList(c *vclient.Client) map[string]string {
	out := map[string]string{}
	for _, e := range c.Events() {
		m := e.M
		if m.Str("type") == "joined" && (m.Str("kind") == "join" || m.Str("kind") == "leave") {
			out = map[string]string{}
		}
		if m.Str("type") != "user" {
			continue
		}
		switch m.Str("kind") {
		case "add", "change":
			out[m.Str("id")] = m.Str("username")
		case "delete":
			delete(out, m.Str("id"))
		}
	}
	return out
}

func (e *env) runWhip(j job) {
	run := e.run
	r := run.Rand(7, uint64(j.I))
	w := e.newWorld(fmt.Sprintf("b%dj%d", e.batch, j.I), "", []string{"present", "message"})
	wildcard := r.IntN(2) == 0
	if wildcard {
		// a group where anybody may listen and talk, but not publish: a WHIP client without
		// a bearer token is then a known user - without 'present'
		w.extraDesc = map[string]any{"wildcard-user": map[string]any{"password": map[string]any{"type": "wildcard"}, "permissions": "message"}}
	}
	w.desc = "(WHIP ingest)"
	defer w.close()
	if !w.setup() {
		return
	}
	if !w.quiesce() {
		return
	}
	known := userList(w.obs)
	strangers := func() []string {
		var out []string
		for id, u := range userList(w.obs) {
			if _, ok := known[id]; !ok {
				out = append(out, id+"("+u+")")
			}
		}
		return out
	}
	in1h := time.Now().Add(time.Hour)
	good, ok := w.mkToken(w.g, []string{"present"}, in1h, nil)
	if !ok {
		return
	}
	lacking := [][]string{{}, {"message"}, {"op", "message", "caption", "token", "record"}}[r.IntN(3)]
	noPresent, ok2 := w.mkToken(w.g, lacking, in1h, nil)
	expired, ok3 := w.mkToken(w.g, []string{"present", "message"}, time.Now().Add(-time.Hour), nil)
	foreign, ok4 := w.mkToken(w.h, []string{"present", "message"}, in1h, nil)
	other, ok5 := w.mkToken(w.g, []string{"present"}, in1h, nil)
	if !(ok2 && ok3 && ok4 && ok5) {
		return
	}
	path := "/group/" + w.g + "/.whip"
	lastBody := ""
	post := func(label, bearer string) (int, string, bool) {
		h := map[string]string{"Content-Type": "application/sdp"}
		if bearer != "" {
			h["Authorization"] = "Bearer " + bearer
		}
		w.logf("HTTP POST %s (%s)", path, label)
		st, hdr, body, err := e.srv.Do("POST", path, h, []byte(e.offer))
		if err != nil {
			w.inconclusive("WHIP POST failed at the transport level: " + err.Error())
			return 0, "", false
		}
		lastBody = string(body)
		w.logf("OBSERVED status %d location %q body %d bytes", st, hdr.Get("Location"), len(body))
		return st, hdr.Get("Location"), true
	}
	del := func(loc, bearer string) int {
		h := map[string]string{}
		if bearer != "" {
			h["Authorization"] = "Bearer " + bearer
		}
		st, _, _, _ := e.srv.Do("DELETE", loc, h, nil)
		return st
	}
	type refusal struct{ label, bearer string }
	refusals := []refusal{
		{"no Authorization header", ""},
		{"unknown bearer token", "no-such-token-" + w.tag},
		{fmt.Sprintf("token granting %v", lacking), noPresent},
		{"token with 'present' that expired an hour ago", expired},
		{"token with 'present' for another group", foreign},
	}
	r.Shuffle(len(refusals), func(i, k int) { refusals[i], refusals[k] = refusals[k], refusals[i] })
	for _, c := range refusals {
		st, loc, ok := post(c.label, c.bearer)
		if !ok {
			return
		}
		run.Eval(1)
		run.Distinct("whip-post|" + strings.SplitN(c.label, " [", 2)[0])
		if !w.quiesce() {
			return
		}
		s := strangers()
		if st >= 200 && st < 300 {
			run.Violation("whip-accepted-without-present", fmt.Sprintf("WHIP POST with %s was accepted with status %d; members now: %v", c.label, st, s), w.replay(j))
			if loc != "" {
				del(loc, c.bearer)
				w.quiesce()
			}
			continue
		}
		if len(s) > 0 {
			run.Violation("whip-refused-but-member-remains", fmt.Sprintf("WHIP POST with %s got status %d but the group now has member(s) %v", c.label, st, s), w.replay(j))
			continue
		}
		if strings.Contains(lastBody, "v=0") && strings.Contains(lastBody, "a=ice-ufrag") {
			// an SDP answer: the server has set up a connection for this ingest
			run.Violation("whip-refused-but-answered", fmt.Sprintf("WHIP POST with %s got status %d, yet the reply carries an SDP answer (%d bytes): the server has set up the ingest connection it refused", c.label, st, len(lastBody)), w.replay(j))
			continue
		}
		run.Count("whip_refused", 1)
	}
	// the real thing
	st, loc, ok := post("token granting [present]", good)
	if !ok {
		return
	}
	run.Eval(1)
	run.Distinct("whip-post|accepted")
	if st != 201 || loc == "" {
		run.Violation("refused-despite-permission:whip", fmt.Sprintf("WHIP POST with a token granting 'present' got status %d, Location %q", st, loc), w.replay(j))
		return
	}
	defer func() { del(loc, good) }()
	if !w.quiesce() {
		return
	}
	s := strangers()
	if len(s) != 1 {
		var hist []string
		for _, ev := range w.obs.Events() {
			if m := ev.M; m.Str("type") == "user" {
				if _, ok := known[m.Str("id")]; !ok {
					hist = append(hist, m.Str("kind")+" "+m.Str("id")+"("+m.Str("username")+")")
				}
			}
		}
		w.logf("observer's history of unknown members: %v", hist)
		run.Violation("refused-despite-permission:whip", fmt.Sprintf("WHIP POST was answered 201 but the observer sees new members %v (history of unknown members: %v)", s, hist), w.replay(j))
		return
	}
	run.Count("whip_accepted", 1)
	frag := fmt.Sprintf("a=ice-ufrag:%s\r\na=ice-pwd:%s\r\nm=audio 9 UDP/TLS/RTP/SAVPF 0\r\na=mid:0\r\n", e.ufrag, e.pwd)
	type attempt struct{ method, label, bearer string }
	attempts := []attempt{
		{"PATCH", "no bearer", ""}, {"DELETE", "no bearer", ""},
		{"PATCH", "a different valid token of the group", other}, {"DELETE", "a different valid token of the group", other},
		{"PATCH", "garbage bearer", "x" + good}, {"DELETE", "garbage bearer", good + "x"},
		{"DELETE", "a token of another group", foreign},
	}
	r.Shuffle(len(attempts), func(i, k int) { attempts[i], attempts[k] = attempts[k], attempts[i] })
	for _, at := range attempts[:3+r.IntN(len(attempts)-2)] {
		h := map[string]string{}
		if at.bearer != "" {
			h["Authorization"] = "Bearer " + at.bearer
		}
		var body []byte
		if at.method == "PATCH" {
			h["Content-Type"] = "application/trickle-ice-sdpfrag"
			body = []byte(frag)
		}
		w.logf("HTTP %s %s (%s)", at.method, loc, at.label)
		st, _, _, err := e.srv.Do(at.method, loc, h, body)
		if err != nil {
			w.inconclusive("WHIP request failed at the transport level: " + err.Error())
			return
		}
		w.logf("OBSERVED status %d", st)
		run.Eval(1)
		run.Distinct("whip-resource|" + at.method + "|" + at.label)
		if !w.quiesce() {
			return
		}
		still := len(strangers()) == 1
		if (st >= 200 && st < 300) || !still {
			run.Violation("whip-resource-wrong-bearer-accepted", fmt.Sprintf("%s on the session URL with %s (the session was created with another bearer token) got status %d; session still a member: %v", at.method, at.label, st, still), w.replay(j))
			if !still {
				return
			}
			continue
		}
		run.Count("whip_resource_refused", 1)
	}
	// the owner may
	h := map[string]string{"Authorization": "Bearer " + good, "Content-Type": "application/trickle-ice-sdpfrag"}
	w.logf("HTTP PATCH %s (right bearer)", loc)
	st, _, _, _ = e.srv.Do("PATCH", loc, h, []byte(frag))
	w.logf("OBSERVED status %d", st)
	if st >= 200 && st < 300 {
		run.Count("whip_patch_by_owner_accepted", 1)
	}
	w.logf("HTTP DELETE %s (right bearer)", loc)
	st = del(loc, good)
	w.logf("OBSERVED status %d", st)
	run.Eval(1)
	run.Distinct("whip-resource|DELETE|owner")
	if !w.quiesce() {
		return
	}
	if st < 200 || st >= 300 || len(strangers()) != 0 {
		run.Violation("refused-despite-permission:whip-delete", fmt.Sprintf("DELETE with the session's own bearer got status %d; members left behind: %v", st, strangers()), w.replay(j))
		return
	}
	run.Count("whip_deleted_by_owner", 1)
}
