package main

import (
	"time"

	"verif/harness/vclient"
)

// Watchdogs.  They never decide a verdict: when one fires the case is undecided and the run
// inconclusive.  They are generous because the machine may be heavily loaded by other
// checks; a correct server answers all of this in milliseconds.
const wd = 90 * time.Second

func ping(c *vclient.Client) bool { return c.Ping(wd) }

// goneSoon: a ping fails at once when the server has just closed the socket, possibly
// before our reader has noticed; tell that apart from a server that does not answer.
func goneSoon(c *vclient.Client) bool {
	deadline := time.Now().Add(10 * time.Second)
	for {
		if closed, _ := c.Closed(); closed {
			return true
		}
		if time.Now().After(deadline) {
			return false
		}
		time.Sleep(time.Millisecond)
	}
}

func joinMsg(c *vclient.Client, m vclient.Msg) (vclient.Msg, bool) {
	from := c.EventCount()
	if err := c.Send(m); err != nil {
		return nil, false
	}
	return c.WaitForFrom(from, func(m vclient.Msg) bool {
		return m.Str("type") == "joined" && (m.Str("kind") == "join" || m.Str("kind") == "fail" || m.Str("kind") == "redirect")
	}, wd)
}

func join(c *vclient.Client, group, username, password string) (vclient.Msg, bool) {
	return joinMsg(c, vclient.Msg{"type": "join", "kind": "join", "group": group, "username": username, "password": password})
}

func joinToken(c *vclient.Client, group, username, tok string) (vclient.Msg, bool) {
	return joinMsg(c, vclient.Msg{"type": "join", "kind": "join", "group": group, "username": username, "token": tok})
}

func leave(c *vclient.Client, group string) bool {
	from := c.EventCount()
	if err := c.Send(vclient.Msg{"type": "join", "kind": "leave", "group": group}); err != nil {
		return false
	}
	_, ok := c.WaitForFrom(from, func(m vclient.Msg) bool { return m.Str("type") == "joined" && m.Str("kind") == "leave" }, wd)
	return ok
}
