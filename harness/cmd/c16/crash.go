package main

import (
	"bytes"
	"encoding/json"
	"fmt"
	"os"
	"path/filepath"
	"sync"
	"time"

	"github.com/jech/galene/token"

	"verif/harness/vfs"
	"verif/harness/vk"
)

// Part 3: crash atomicity by syscall-level fault enumeration.  A traced child pinned to
// its main thread performs exactly one mutating operation on a copy of a prepared file.
// An uninjected run teaches the sequence of file-system syscalls of the operation; then
// the child is re-run once per syscall with SIGKILL injected on entry to it, and once per
// (syscall, errno) with the call failing instead.

type crashArgs struct {
	File   string          `json:"file"`
	Op     string          `json:"op"` // create, edit, delete, expire
	Tok    *token.Stateful `json:"tok,omitempty"`
	Name   string          `json:"name,omitempty"`
	Names  []string        `json:"names"`
	Groups []string        `json:"groups"`
}

type crashOut struct {
	OK   bool   `json:"ok"`
	Err  string `json:"err,omitempty"`
	View view   `json:"view"`
}

// crashopMain is the traced child.  init() has locked the main goroutine to the main
// thread, so every syscall of the operation is made by the thread strace counts on.
func crashopMain() {
	var a crashArgs
	if err := json.Unmarshal([]byte(os.Getenv("VERIF_CHILD_ARGS")), &a); err != nil {
		os.Exit(4)
	}
	token.SetStatefulFilename(a.File)
	etag := ""
	if a.Op == "edit" || a.Op == "delete" {
		var err error
		_, etag, err = token.Get(a.Name)
		if err != nil {
			fmt.Fprintln(os.Stderr, "crashop: cannot read the tag:", err)
			os.Exit(5)
		}
	}
	var err error
	vfs.Mark(vfs.MarkBegin)
	switch a.Op {
	case "create":
		_, err = token.Update(a.Tok, "")
	case "edit":
		_, err = token.Update(a.Tok, etag)
	case "delete":
		err = token.Delete(a.Name, etag)
	case "expire":
		err = token.Expire()
	default:
		os.Exit(4)
	}
	vfs.Mark(vfs.MarkEnd)
	out := crashOut{OK: err == nil, View: takeView(a.Names, a.Groups)}
	if err != nil {
		out.Err = err.Error()
	}
	b, _ := json.Marshal(out)
	os.Stdout.Write(b)
	if err != nil {
		os.Exit(3)
	}
	os.Exit(0)
}

type crashCase struct {
	Op      string // create-nodir, create-nofile, create, edit, delete, delete-last, expire, expire-all
	Variant int
	Old     []*token.Stateful
	New     []*token.Stateful
	Args    crashArgs
	NoDir   bool
}

func (c *crashCase) id() string { return fmt.Sprintf("%s-v%d", c.Op, c.Variant) }

var crashGroups = []string{"tk-a", "tk-b"}

func genTok(r interface{ IntN(int) int }, name string, sweepable bool, i int) *token.Stateful {
	now := time.Now()
	var exp time.Time
	if sweepable {
		exp = now.Add(-8*day - time.Duration(i+1)*time.Hour)
	} else if r.IntN(4) == 0 {
		exp = now.Add(-time.Hour - time.Duration(i+1)*time.Minute)
	} else {
		exp = now.Add(time.Hour + time.Duration(i+1)*time.Minute + time.Duration(r.IntN(1000))*time.Hour)
	}
	exp = exp.Truncate(time.Millisecond)
	t := &token.Stateful{Token: name, Group: crashGroups[r.IntN(2)], Expires: &exp, Permissions: []string{}}
	for _, p := range []string{"present", "message", "op"} {
		if r.IntN(2) == 0 {
			t.Permissions = append(t.Permissions, p)
		}
	}
	if r.IntN(3) == 0 {
		u := "user-" + name
		t.Username = &u
	}
	if r.IntN(4) == 0 {
		t.IncludeSubgroups = true
	}
	return t
}

func cloneTok(t *token.Stateful) *token.Stateful {
	c := *t
	c.Permissions = append([]string{}, t.Permissions...)
	return &c
}

// genCrashCase computes the OLD set, the operation and the NEW set.
func genCrashCase(run *vk.Run, opIdx int, op string, variant int) *crashCase {
	r := run.Rand(3, uint64(opIdx), uint64(variant))
	c := &crashCase{Op: op, Variant: variant}
	mk := func(n int, sweepFirst int) []*token.Stateful {
		var l []*token.Stateful
		for i := 0; i < n; i++ {
			l = append(l, genTok(r, fmt.Sprintf("%s%dt%d", op[:1], variant, i), i < sweepFirst, i))
		}
		return l
	}
	switch op {
	case "create-nodir", "create-nofile":
		c.NoDir = op == "create-nodir"
		nt := genTok(r, "fresh", false, 0)
		c.New = []*token.Stateful{nt}
		c.Args = crashArgs{Op: "create", Tok: nt}
	case "create":
		c.Old = mk(1+variant%4+r.IntN(2), 0)
		nt := genTok(r, "fresh", false, 9)
		c.New = append(append([]*token.Stateful{}, c.Old...), nt)
		c.Args = crashArgs{Op: "create", Tok: nt}
	case "edit":
		c.Old = mk(1+(variant*3)%5+r.IntN(2), 0)
		k := r.IntN(len(c.Old))
		nt := cloneTok(c.Old[k])
		exp := time.Now().Add(48*time.Hour + time.Duration(r.IntN(5000))*time.Minute).Truncate(time.Millisecond)
		nt.Expires = &exp
		nt.Permissions = append(nt.Permissions, "edited")
		for i, t := range c.Old {
			if i == k {
				c.New = append(c.New, nt)
			} else {
				c.New = append(c.New, t)
			}
		}
		c.Args = crashArgs{Op: "edit", Tok: nt, Name: nt.Token}
	case "delete":
		c.Old = mk(2+(variant*3)%5+r.IntN(2), 0)
		k := r.IntN(len(c.Old))
		for i, t := range c.Old {
			if i != k {
				c.New = append(c.New, t)
			}
		}
		c.Args = crashArgs{Op: "delete", Name: c.Old[k].Token}
	case "delete-last":
		c.Old = mk(1, 0)
		c.Args = crashArgs{Op: "delete", Name: c.Old[0].Token}
	case "expire":
		s := 1 + r.IntN(3)
		c.Old = mk(s+1+(variant*2)%5, s)
		c.New = append(c.New, c.Old[s:]...)
		c.Args = crashArgs{Op: "expire"}
	case "expire-all":
		s := 1 + r.IntN(3)
		c.Old = mk(s, s)
		c.Args = crashArgs{Op: "expire"}
	}
	seen := map[string]bool{}
	for _, l := range [][]*token.Stateful{c.Old, c.New} {
		for _, t := range l {
			if !seen[t.Token] {
				seen[t.Token] = true
				c.Args.Names = append(c.Args.Names, t.Token)
			}
		}
	}
	c.Args.Groups = crashGroups
	return c
}

func fileBytes(l []*token.Stateful) []byte {
	var b bytes.Buffer
	for _, t := range l {
		x, _ := json.Marshal(t)
		b.Write(x)
		b.WriteByte('\n')
	}
	return b.Bytes()
}

// prepare builds <dir>/var/tokens.jsonl holding the set (no file for an empty set, no
// directory either if noDir) and returns the file name.
func prepare(dir string, set []*token.Stateful, noDir bool) (string, error) {
	vd := filepath.Join(dir, "var")
	file := filepath.Join(vd, "tokens.jsonl")
	if noDir {
		return file, os.MkdirAll(dir, 0o700)
	}
	if err := os.MkdirAll(vd, 0o700); err != nil {
		return file, err
	}
	if len(set) == 0 {
		return file, nil
	}
	return file, os.WriteFile(file, fileBytes(set), 0o600)
}

type crashEnv struct {
	run  *vk.Run
	root string
	sem  chan struct{}
	wg   sync.WaitGroup
}

func (e *crashEnv) traced(c *crashCase, sub string, inject []string) (vfs.Result, string, error) {
	dir := filepath.Join(e.root, c.id(), sub)
	file, err := prepare(dir, c.Old, c.NoDir)
	if err != nil {
		return vfs.Result{}, file, err
	}
	a := c.Args
	a.File = file
	ab, _ := json.Marshal(a)
	env := childEnv("crashop", string(ab))
	res, err := vfs.Run(vfs.Options{Argv: []string{os.Args[0]}, Env: env, Dir: dir, Inject: inject, LogPath: filepath.Join(dir, "strace.log"), Timeout: 90 * time.Second})
	return res, file, err
}

var errnoSet = []string{"EIO", "ENOSPC"}

// which syscalls get error injection
func errTarget(name string) bool {
	switch name {
	case "write", "pwrite64", "fsync", "fdatasync", "rename", "renameat", "renameat2", "openat", "unlink", "unlinkat", "close", "mkdir", "mkdirat", "ftruncate":
		return true
	}
	return false
}

func (e *crashEnv) runCase(c *crashCase) {
	run := e.run
	replay := func(mode string, p *vfs.Point, errno string) map[string]any {
		m := map[string]any{"phase": "crash", "op": c.Op, "variant": c.Variant, "mode": mode, "old": c.Old, "operation": c.Args}
		if p != nil {
			m["ordinal"], m["syscall"], m["syscall_args"] = p.Index, p.Name, p.Args
		}
		if errno != "" {
			m["errno"] = errno
		}
		return m
	}
	// what a fresh process sees of the OLD and of the NEW set
	oldFile, err1 := prepare(filepath.Join(e.root, c.id(), "old"), c.Old, false)
	newFile, err2 := prepare(filepath.Join(e.root, c.id(), "new"), c.New, false)
	if err1 != nil || err2 != nil {
		run.Inconclusive("cannot prepare the crash case " + c.id())
		return
	}
	oldV, err1 := freshView(oldFile, c.Args.Names, c.Args.Groups)
	newV, err2 := freshView(newFile, c.Args.Names, c.Args.Groups)
	if err1 != nil || err2 != nil || oldV.unparsable() != "" || newV.unparsable() != "" {
		run.Inconclusive(fmt.Sprintf("crash case %s: the prepared files cannot be read back (%v %v %s %s)", c.id(), err1, err2, oldV.unparsable(), newV.unparsable()))
		return
	}
	oldC, newC := oldV.canon(), newV.canon()
	if oldC == newC {
		run.Inconclusive("crash case " + c.id() + ": OLD and NEW are indistinguishable")
		return
	}
	// baseline
	e.sem <- struct{}{}
	res, file, err := e.traced(c, "base", nil)
	<-e.sem
	if err != nil || res.TimedOut {
		run.Inconclusive(fmt.Sprintf("crash case %s: baseline run failed: %v timeout=%v", c.id(), err, res.TimedOut))
		return
	}
	var out crashOut
	if res.Killed || json.Unmarshal(res.Stdout, &out) != nil {
		run.Inconclusive(fmt.Sprintf("crash case %s: baseline run gave no result (exit %d killed=%v): %s", c.id(), res.Exit, res.Killed, tail(string(res.Stderr), 300)))
		return
	}
	run.Eval(1)
	fresh, ferr := freshView(file, c.Args.Names, c.Args.Groups)
	if ferr != nil {
		run.Inconclusive("tokdump failed: " + ferr.Error())
		return
	}
	run.Count("reload_comparisons", 1)
	if out.View.canon() != fresh.canon() {
		run.Violation("reload-mismatch:"+c.Args.Op, "after one uninterrupted "+c.Args.Op+" the process that did it and a fresh one disagree: "+diffViews("live", "fresh", out.View, fresh), replay("baseline", nil, ""))
		return
	}
	if !out.OK || fresh.canon() != newC {
		run.Inconclusive(fmt.Sprintf("crash case %s: the uninterrupted operation did not produce the computed NEW set (ok=%v err=%s): %s", c.id(), out.OK, out.Err, diffViews("computed", "fresh", newV, fresh)))
		return
	}
	points, perr := vfs.Points(res.Trace, filepath.Join(e.root, c.id(), "base"))
	if perr != nil || len(points) == 0 {
		run.Inconclusive(fmt.Sprintf("crash case %s: %v (%d points)", c.id(), perr, len(points)))
		return
	}
	run.Count("baseline_window_syscalls", int64(len(points)))
	if c.Variant == 0 {
		var seq []string
		for _, p := range points {
			seq = append(seq, p.Name)
		}
		run.Set("window:"+c.Op, seq)
	}
	for i := range points {
		p := points[i]
		// kill on entry to this syscall
		e.wg.Add(1)
		go func() {
			defer e.wg.Done()
			e.sem <- struct{}{}
			defer func() { <-e.sem }()
			res, file, err := e.traced(c, fmt.Sprintf("k%d", p.Index), []string{vfs.KillAt(p.Name, p.NameOrd)})
			if err != nil || res.TimedOut {
				run.Inconclusive(fmt.Sprintf("crash case %s: injected run failed: %v", c.id(), err))
				return
			}
			run.Eval(1)
			hit, ok := res.Trace.HitAt(p.Name, p.NameOrd)
			_, began, complete := res.Trace.Window(vfs.MarkBegin, vfs.MarkEnd)
			name := p.Name
			if res.Killed && ok && began && !complete && hit.Tid == res.Trace.MainTid {
				name = hit.Name
				run.Count("crash_points_hit", 1)
				run.Distinct(fmt.Sprintf("crash %s %s #%d", c.Op, hit.Name, p.Index))
				if hit.Name != p.Name {
					run.Count("crash_point_drift", 1)
				}
			} else {
				run.Count("kill_not_inside_operation", 1)
			}
			fresh, ferr := freshView(file, c.Args.Names, c.Args.Groups)
			if ferr != nil {
				run.Inconclusive("tokdump failed: " + ferr.Error())
				return
			}
			run.Count("crash_runs_judged", 1)
			fc := fresh.canon()
			switch {
			case fresh.unparsable() != "":
				run.Violation(fmt.Sprintf("crash-unparsable:%s:%s", c.Op, name), fmt.Sprintf("%s killed on entry to %s(%s) (syscall %d of the operation): a fresh process cannot read the token file: %s", c.Op, name, p.Args, p.Index, fresh.unparsable()), replay("kill", &p, ""))
			case fc == oldC:
				run.Count("crash_left_old", 1)
			case fc == newC:
				run.Count("crash_left_new", 1)
			default:
				run.Violation(fmt.Sprintf("crash-partial-file:%s:%s", c.Op, name), fmt.Sprintf("%s killed on entry to %s(%s) (syscall %d of the operation): a fresh process reads neither the old nor the new set: vs old: %s", c.Op, name, p.Args, p.Index, diffViews("old", "fresh", oldV, fresh)), replay("kill", &p, ""))
			}
		}()
		if !errTarget(p.Name) {
			continue
		}
		for _, errno := range errnoSet {
			errno := errno
			e.wg.Add(1)
			go func() {
				defer e.wg.Done()
				e.sem <- struct{}{}
				defer func() { <-e.sem }()
				res, file, err := e.traced(c, fmt.Sprintf("e%d-%s", p.Index, errno), []string{vfs.FailAt(p.Name, errno, p.NameOrd)})
				if err != nil || res.TimedOut {
					run.Inconclusive(fmt.Sprintf("crash case %s: error-injected run failed: %v", c.id(), err))
					return
				}
				run.Eval(1)
				var out crashOut
				if res.Killed || json.Unmarshal(res.Stdout, &out) != nil {
					if sig, _ := vk.CrashSignature(string(res.Stderr)); sig != "" {
						run.Violation(fmt.Sprintf("error-not-rolled-back:%s:%s:%s", c.Op, p.Name, errno), fmt.Sprintf("%s with %s failing with %s crashed the process: %s", c.Op, p.Name, errno, sig), replay("error", &p, errno))
					} else {
						run.Inconclusive(fmt.Sprintf("crash case %s: error-injected run gave no result: %s", c.id(), tail(string(res.Stderr), 300)))
					}
					return
				}
				applied := false
				for _, t := range res.Trace.Tampered() {
					if t.Tid == res.Trace.MainTid && t.Name == p.Name && t.NameOrd == p.NameOrd {
						applied = true
					}
				}
				if !applied {
					run.Count("error_injection_missed", 1)
					return
				}
				run.Count("error_injections_applied", 1)
				run.Distinct(fmt.Sprintf("error %s %s #%d %s", c.Op, p.Name, p.Index, errno))
				fresh, ferr := freshView(file, c.Args.Names, c.Args.Groups)
				if ferr != nil {
					run.Inconclusive("tokdump failed: " + ferr.Error())
					return
				}
				fc := fresh.canon()
				key := fmt.Sprintf("error-not-rolled-back:%s:%s:%s", c.Op, p.Name, errno)
				where := fmt.Sprintf("%s with %s(%s) (syscall %d of the operation) failing with %s", c.Op, p.Name, p.Args, p.Index, errno)
				switch {
				case out.View.canon() != fc:
					run.Violation(key, fmt.Sprintf("%s (operation reported ok=%v %s): the process that did it and a fresh one disagree afterwards: %s", where, out.OK, out.Err, diffViews("live", "fresh", out.View, fresh)), replay("error", &p, errno))
				case out.OK && fc != newC:
					run.Violation(fmt.Sprintf("error-swallowed:%s:%s:%s", c.Op, p.Name, errno), fmt.Sprintf("%s: the operation reported success but the new set is not what a fresh process reads: %s", where, diffViews("computed", "fresh", newV, fresh)), replay("error", &p, errno))
				case !out.OK && fc != oldC && fc != newC:
					run.Violation(key, fmt.Sprintf("%s: the operation reported failure (%s) and left neither the old nor the new set: %s", where, out.Err, diffViews("old", "fresh", oldV, fresh)), replay("error", &p, errno))
				case out.OK:
					run.Count("errors_tolerated_with_success", 1)
				default:
					run.Count("errors_reported_and_rolled_back", 1)
				}
			}()
		}
	}
}

var crashOps = []string{"create-nodir", "create-nofile", "create", "edit", "delete", "delete-last", "expire", "expire-all"}

// crashPhase enumerates all cases; only (op, variant) if given.
func crashPhase(run *vk.Run, variants map[string]int, onlyOp string, onlyVariant int) {
	if err := vfs.Available(); err != nil {
		run.Inconclusive("strace is not usable: " + err.Error())
		return
	}
	e := &crashEnv{run: run, root: filepath.Join(run.Scratch, "crash"), sem: make(chan struct{}, 14)}
	for oi, op := range crashOps {
		for v := 0; v < variants[op]; v++ {
			if onlyOp != "" && (op != onlyOp || v != onlyVariant) {
				continue
			}
			c := genCrashCase(run, oi, op, v)
			e.wg.Add(1)
			go func() {
				defer e.wg.Done()
				e.runCase(c)
			}()
		}
	}
	e.wg.Wait()
}
