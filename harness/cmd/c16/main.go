// C16 - stateful tokens: durable, conditionally updated, revocation final, file replaced
// atomically.
//
// Three monitors (see DESIGN.md, section C16):
//
//  1. reload equivalence: random histories of create / edit / delete / expire / list / get
//     through the library, the websocket commands and the HTTP API of the real server,
//     interleaved with external edits of the file; after EVERY step a freshly started
//     process ("tokdump" child mode of this binary) loads the file and must honour exactly
//     what the live process honours; revoked tokens never authorise again in either.
//  2. conditional updates under concurrency (list-append histories, -race build).
//  3. crash atomicity: strace kills a single-threaded child on entry to every file-system
//     syscall of one mutating operation (and makes every one fail with EIO / ENOSPC); a
//     fresh process must read exactly the old or exactly the new set.
package main

import (
	"fmt"
	"os"
	"runtime"
	"strings"
	"sync"
	"time"

	"verif/harness/vk"
	"verif/harness/vsrv"
)

const prop = "C16"

func init() {
	// the traced child: keep the main goroutine (and so every syscall of the operation
	// under test) on the main thread, which is the one the injection count refers to
	if os.Getenv("VERIF_CHILD") == "crashop" {
		runtime.LockOSThread()
	}
}

type libArgs struct {
	Kind  string `json:"kind"` // hist | conc
	First uint64 `json:"first"`
	Count int    `json:"count"`
	Steps int    `json:"steps"`
}

func libChild() {
	run := vk.Start(prop)
	var a libArgs
	vk.ChildArgs(&a)
	for i := uint64(0); i < uint64(a.Count); i++ {
		switch a.Kind {
		case "hist":
			libHistory(run, a.First+i, a.Steps)
		case "conc":
			concCase(run, a.First+i)
			flipCase(run, a.First+i)
		}
	}
	os.Exit(0)
}

func e2eChild() {
	run := vk.Start(prop)
	var a libArgs
	vk.ChildArgs(&a)
	srv, err := vsrv.Start(vsrv.Config{Root: os.Getenv("VERIF_CHILD_DIR"), LogToFile: true})
	if err != nil {
		run.Inconclusive("server start: " + err.Error())
		os.Exit(0)
	}
	for _, g := range histGroups {
		srv.WriteGroup(g, map[string]any{
			"users":          map[string]any{"op1": map[string]any{"password": "pw-op1", "permissions": "op"}},
			"auto-subgroups": true,
		})
	}
	for i := uint64(0); i < uint64(a.Count); i++ {
		e2eHistory(run, srv, a.First+i, a.Steps)
		httpConc(run, srv, a.First+i)
		wsEditRace(run, srv, a.First+i)
	}
	os.Exit(0)
}

func classify(run *vk.Run, what string, res vk.ChildResult, replay map[string]any) {
	seen := map[string]bool{}
	for _, rep := range res.Races {
		if !rep.InFiles([]string{"/token/"}) {
			run.Count("race_reports_out_of_scope", 1)
			continue
		}
		k := rep.Key()
		if seen[k] {
			continue
		}
		seen[k] = true
		m := map[string]any{"report": rep.Text}
		for kk, v := range replay {
			m[kk] = v
		}
		run.Violation(k, "data race in the token store reported by the Go race detector during "+what, m)
	}
	switch {
	case strings.HasPrefix(res.Crash, "harness-crash:"):
		run.Inconclusive(fmt.Sprintf("%s: the harness itself crashed: %s\n%s", what, res.Crash, res.CrashText))
	case res.Crash != "":
		m := map[string]any{"crash": res.CrashText, "last_commands": res.Notes}
		for kk, v := range replay {
			m[kk] = v
		}
		key := "process-crashed:" + res.Crash
		if strings.Contains(res.Crash, "concurrent map") {
			key = "race:" + res.Crash
		}
		run.Violation(key, "the process died during "+what+": "+res.Crash, m)
	case res.TimedOut:
		run.Inconclusive(what + ": watchdog fired")
	case res.ExitCode != 0:
		run.Inconclusive(fmt.Sprintf("%s: child exited with %d", what, res.ExitCode))
	default:
		run.Count("children_completed", 1)
	}
}

func main() {
	if mode, ok := vk.InChild(); ok {
		switch mode {
		case "tokdump":
			tokdumpMain()
		case "crashop":
			crashopMain()
		case "lib":
			libChild()
		case "e2e":
			e2eChild()
		}
		os.Exit(4)
	}
	run := vk.Start(prop)

	nHist := run.Pick(64, 4000)   // library histories
	histSteps := run.Pick(24, 40) // steps each
	histPer := run.Pick(4, 12)    // histories per child
	nConc := run.Pick(48, 4500)   // concurrent cases
	concPer := run.Pick(6, 20)    // per child
	nE2E := run.Pick(10, 720)     // e2e children, one history + one http-concurrent scenario each
	e2eSteps := run.Pick(30, 50)  //
	variants := map[string]int{}  // crash-case variants per operation
	for _, op := range crashOps {
		variants[op] = run.Pick(3, 120)
	}
	variants["delete-last"] = run.Pick(1, 4)
	variants["create-nodir"] = run.Pick(2, 10)
	variants["create-nofile"] = run.Pick(2, 10)
	variants["expire-all"] = run.Pick(2, 10)

	doHist, doConc, doE2E, doCrash := true, true, true, true
	histFirst, concFirst, e2eFirst := uint64(0), uint64(0), uint64(0)
	crashOp, crashVar := "", 0
	replaying := false
	if rep, ok := vk.ReplayInput(); ok {
		replaying = true
		m, _ := rep["replay"].(map[string]any)
		ph, _ := m["phase"].(string)
		doHist, doConc, doE2E, doCrash = ph == "hist", ph == "conc", ph == "e2e", ph == "crash"
		num := func(k string) uint64 { f, _ := m[k].(float64); return uint64(f) }
		switch ph {
		case "hist":
			histFirst, nHist, histPer = num("history"), 1, 1
		case "conc":
			concFirst, nConc, concPer = num("case"), 1, 1
		case "e2e":
			e2eFirst, nE2E = num("history"), 1
		case "crash":
			crashOp, _ = m["op"].(string)
			crashVar = int(num("variant"))
		}
	}

	if only := os.Getenv("VERIF_C16_ONLY"); only != "" { // development aid: run one part
		doHist, doConc, doE2E, doCrash = only == "hist", only == "conc", only == "e2e", only == "crash"
		replaying = true
	}

	sem := make(chan struct{}, 12)
	var wg sync.WaitGroup
	spawn := func(f func()) {
		wg.Add(1)
		go func() {
			defer wg.Done()
			sem <- struct{}{}
			defer func() { <-sem }()
			f()
		}()
	}
	if doCrash {
		wg.Add(1)
		go func() {
			defer wg.Done()
			crashPhase(run, variants, crashOp, crashVar)
		}()
	}
	if doE2E {
		for i := 0; i < nE2E; i++ {
			first := e2eFirst + uint64(i)
			spawn(func() {
				res := run.RunChild("e2e", libArgs{First: first, Count: 1, Steps: e2eSteps}, 10*time.Minute)
				classify(run, "an end-to-end token history", res, map[string]any{"phase": "e2e", "history": first})
			})
		}
	}
	if doHist {
		for i := 0; i < nHist; i += histPer {
			first := histFirst + uint64(i)
			spawn(func() {
				res := run.RunChild("lib", libArgs{Kind: "hist", First: first, Count: min(histPer, nHist-int(first-histFirst)), Steps: histSteps}, 10*time.Minute)
				classify(run, "a library token history", res, map[string]any{"phase": "hist", "history": first})
			})
		}
	}
	if doConc {
		for i := 0; i < nConc; i += concPer {
			first := concFirst + uint64(i)
			spawn(func() {
				res := run.RunChild("lib", libArgs{Kind: "conc", First: first, Count: min(concPer, nConc-int(first-concFirst))}, 10*time.Minute)
				classify(run, "concurrent conditional updates", res, map[string]any{"phase": "conc", "case": first})
			})
		}
	}
	wg.Wait()

	if !replaying {
		run.FloorCounter("reload_comparisons", int64(nHist*histSteps/2))
		run.FloorCounter("authorising_tokens_compared", 100)
		run.FloorCounter("revoked_tokens_rechecked", 100)
		run.FloorCounter("tokens_swept", 5)
		run.FloorCounter("external_edits", 20)
		run.FloorCounter("stale_tags_refused", 5)
		run.FloorCounter("ws_creates", 5)
		run.FloorCounter("http_creates", 5)
		run.FloorCounter("http_edits", 3)
		run.FloorCounter("ws_edits", 3)
		run.FloorCounter("listings_compared", 5)
		run.FloorCounter("revoked_joins_refused", 3)
		run.FloorCounter("acked_appends_verified", 200)
		run.FloorCounter("refused_updates_observed", 50)
		run.FloorCounter("http_refused_updates_observed", 1)
		run.FloorCounter("deletes_acked", 5)
		run.FloorCounter("constant_size_chains_verified", int64(nConc/2))
		run.FloorCounter("constant_size_refused_updates", 100)
		run.FloorCounter("ws_edit_race_refused_edits_without_effect", 5)
		run.FloorCounter("order_constraints_checked", 100)
		run.FloorCounter("crash_points_hit", int64(run.Pick(60, 600)))
		run.FloorCounter("error_injections_applied", int64(run.Pick(100, 1000)))
		run.FloorCounter("crash_left_old", 10)
		run.FloorCounter("crash_left_new", 1)
		run.FloorCounter("errors_reported_and_rolled_back", 10)
	}
	run.Assume("power-loss durability (loss of the page cache, reordering of data and metadata writes) is out of reach: a killed process leaves everything its completed syscalls did; the crash points are the entries of the file-system syscalls of the operation, so a write() is all-or-nothing here")
	run.Assume("a fresh process is this binary re-executed with the token package pointed at the same file; 'honours' is observed as token.Get + Check(host, group) (the path a join takes), token.List per group, and real joins by token over the websocket at the end of each end-to-end history")
	run.Assume("successive file versions differ in size by construction (every edit lengthens a permission list, a re-created token starts longer than its predecessors could grow), which is the property's own precondition for telling versions apart; all expiry offsets are at least 120 s away from now and from the one-week sweep boundary")
	run.Assume("error injection (EIO / ENOSPC on one syscall of the operation) is the roll-back clause of DESIGN.md: the operation reports failure or has fully succeeded, and the process's own view equals a fresh process's view afterwards")
	run.Finish("fault_enumeration", "part 1: histories generated from (seed, index) over library / websocket / HTTP routes with external appends and removals, one fresh-process comparison after every step; part 2: K=2..8 goroutines (and HTTP clients) appending unique ids under the tag they read, a conditional deleter re-creating the token, checked for exactly-once presence, absence of refused ids and list order vs. acknowledgement order; part 3: for each of 8 operation shapes x variants, SIGKILL on entry to each file-system syscall of the operation's window on the main thread and EIO/ENOSPC on each. distinct_nontrivial = distinct (operation, syscall, ordinal) crash points actually hit + distinct (operation, syscall, ordinal, errno) injections applied + distinct concurrency shapes with both acknowledged and refused updates + distinct history shapes with revocations")
}
