package main

import (
	"fmt"
	"sync"
	"sync/atomic"
	"time"

	"github.com/jech/galene/token"

	"verif/harness/vclient"
	"verif/harness/vk"
	"verif/harness/vsrv"
)

// wsEditRace: an operator edits the expiry of a token with the signalling command
// `edittoken` (which reads the token and its tag, then updates conditionally) while other
// tokens are created and deleted through the HTTP API all the time, so that the conditional
// update regularly loses ("tag mismatch").  A refused edit must have no effect: every edit
// carries a unique expiry time, and after an edit was answered with an error the token the
// running server honours (token.Get in this process) must not carry that time.  At the end
// the running server and a fresh process must agree.
func wsEditRace(run *vk.Run, srv *vsrv.Server, idx uint64) {
	r := run.Rand(31, idx)
	g := histGroups[r.IntN(len(histGroups))]
	replay := map[string]any{"phase": "e2e", "history": idx, "part": "ws-edit-race"}
	c, err := vclient.Dial(srv, fmt.Sprintf("c16race-%d", idx))
	if err != nil {
		return
	}
	defer c.Close()
	if m, ok := c.Join(g, "op1", "pw-op1"); !ok || m.Str("kind") != "join" {
		run.Inconclusive("ws-edit-race: the operator could not join")
		return
	}
	name := fmt.Sprintf("race%d", idx)
	base := time.Now().Add(48 * time.Hour).UTC().Truncate(time.Second)
	if _, err := token.Update(&token.Stateful{Token: name, Group: g, Permissions: []string{"present"}, Expires: &base}, ""); err != nil {
		run.Inconclusive("ws-edit-race: cannot create the token: " + err.Error())
		return
	}
	var stop atomic.Bool
	var wg sync.WaitGroup
	for k := 0; k < 3; k++ {
		wg.Add(1)
		go func(k int) {
			defer wg.Done()
			for n := 0; !stop.Load(); n++ {
				other := fmt.Sprintf("noise%d-%d-%d", idx, k, n)
				exp := base.Add(time.Duration(n) * time.Minute)
				body := apiBody(&token.Stateful{Permissions: []string{"message"}, Expires: &exp})
				srv.Do("PUT", apiTok(g, other), map[string]string{"Authorization": srv.AdminAuth()["Authorization"], "Content-Type": "application/json", "If-None-Match": "*"}, body)
				srv.Do("DELETE", apiTok(g, other), srv.AdminAuth(), nil)
			}
		}(k)
	}
	refused, acked := 0, 0
	for n := 1; n <= 40; n++ {
		want := base.Add(time.Duration(n) * time.Hour)
		from := c.EventCount()
		c.Send(vclient.Msg{"type": "groupaction", "kind": "edittoken", "source": c.ID, "value": map[string]any{"token": name, "expires": want.Format(time.RFC3339)}})
		reply, ok := c.WaitForFrom(from, func(m vclient.Msg) bool { return m.Str("type") == "usermessage" && m.Str("kind") == "token" }, 30*time.Second)
		if !ok {
			break
		}
		run.Eval(1)
		live, _, gerr := token.Get(name)
		if reply.Str("error") != "" {
			refused++
			if gerr == nil && live.Expires != nil && live.Expires.Equal(want) {
				stop.Store(true)
				wg.Wait()
				run.Violation("refused-edit-took-effect:ws", fmt.Sprintf("edittoken of %s with expires %s was answered with the error %q, yet the running server now honours the token until that very time", name, want.Format(time.RFC3339), reply["value"]), replay)
				return
			}
		} else {
			acked++
		}
	}
	stop.Store(true)
	wg.Wait()
	run.Count("ws_edit_race_refused_edits_without_effect", int64(refused))
	run.Count("ws_edit_race_acknowledged_edits", int64(acked))
	live := takeView([]string{name}, histGroups)
	fresh, ferr := freshView(srv.TokenFile, []string{name}, histGroups)
	if ferr == nil && live.canon() != fresh.canon() {
		run.Violation("reload-mismatch:ws-edit-race", "after edittoken commands racing with other token changes the running server and a fresh process disagree: "+diffViews("live", "fresh", live, fresh), replay)
	}
}
