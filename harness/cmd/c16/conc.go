package main

import (
	"encoding/json"
	"errors"
	"fmt"
	"os"
	"path/filepath"
	"runtime"
	"strings"
	"sync"
	"sync/atomic"
	"time"

	"github.com/jech/galene/token"

	"verif/harness/vk"
	"verif/harness/vsrv"
)

// Part 2: conditional updates under concurrency.  Writers append a unique id to the
// token's permission list, conditioned on the tag they read together with the list.  The
// token's first list element names its incarnation (a deleter removes the token
// conditionally and re-creates it), so every attempt is attributed to the incarnation it
// read, and the final list of every incarnation is known: the list the acknowledged
// delete read, or the list that is there at the end.

type appendRec struct {
	ID     string `json:"id"`
	Inc    string `json:"inc"`
	Before int64  `json:"before"`
	After  int64  `json:"after"`
	Acked  bool   `json:"acked"`
	Tag    string `json:"tag,omitempty"`
	Err    string `json:"err,omitempty"`
}

type listOracle struct {
	fail                  func(key, what string)
	AckedVerified         int
	Refused               int
	OrderPairsConstrained int
}

func short(s string) string {
	if len(s) > 24 {
		return s[:24] + "..."
	}
	return s
}

// judge: finals maps an incarnation id to the final list of that incarnation (without
// the incarnation id itself).
func (o *listOracle) judge(finals map[string][]string, recs []appendRec) {
	// one case reports each kind of anomaly at most twice
	reported := map[string]int{}
	report := o.fail
	o.fail = func(key, what string) {
		reported[key]++
		if reported[key] <= 2 {
			report(key, what)
		}
	}
	defer func() { o.fail = report }()
	byID := map[string]appendRec{}
	for _, a := range recs {
		byID[a.ID] = a
	}
	count := map[string]map[string]int{}
	for inc, l := range finals {
		count[inc] = map[string]int{}
		for _, id := range l {
			count[inc][id]++
		}
	}
	for _, a := range recs {
		total := 0
		for inc := range finals {
			total += count[inc][a.ID]
		}
		if a.Acked {
			own := 0
			if c, ok := count[a.Inc]; ok {
				own = c[a.ID]
			}
			switch {
			case own == 0:
				o.fail("acknowledged-append-lost", fmt.Sprintf("the update appending %s to incarnation %s was acknowledged (tag %s) but the id is not in that incarnation's final list", a.ID, short(a.Inc), a.Tag))
			case total > 1:
				o.fail("append-duplicated", fmt.Sprintf("%s, appended once, occurs %d times", a.ID, total))
			default:
				o.AckedVerified++
			}
		} else {
			if total > 0 {
				o.fail("refused-append-present", fmt.Sprintf("the update appending %s was refused (%s) but the id is in the final list", a.ID, a.Err))
			}
			o.Refused++
		}
	}
	// order: if a was acknowledged before b was even submitted, a precedes b
	for inc, l := range finals {
		var maxBefore int64 = -1
		var maxID string
		for _, id := range l {
			a, ok := byID[id]
			if !ok || !a.Acked {
				continue
			}
			if a.After < maxBefore {
				o.fail("order-contradicts-acks", fmt.Sprintf("in incarnation %s the list places %s before %s, but the update of %s had returned (stamp %d) before the update of %s was submitted (stamp %d)", short(inc), maxID, id, id, a.After, maxID, maxBefore))
				break
			}
			if maxBefore >= 0 {
				o.OrderPairsConstrained++
			}
			if a.Before > maxBefore {
				maxBefore, maxID = a.Before, id
			}
		}
	}
}

const concTok = "ctok"

func concCase(run *vk.Run, idx uint64) {
	r := run.Rand(2, idx)
	K := 2 + r.IntN(7)
	A := 12 + r.IntN(20)
	withStatic := r.IntN(2) == 0
	deletes := 0
	if r.IntN(3) != 0 {
		deletes = 1 + r.IntN(3)
	}
	dir := filepath.Join(os.Getenv("VERIF_CHILD_DIR"), fmt.Sprintf("conc-%d", idx), "var")
	os.MkdirAll(dir, 0o700)
	file := filepath.Join(dir, "tokens.jsonl")
	token.SetStatefulFilename(file)
	exp := time.Now().Add(time.Hour).Truncate(time.Second)
	replay := map[string]any{"phase": "conc", "case": idx, "writers": K, "attempts": A, "static": withStatic, "deletes": deletes}
	bad := false
	fail := func(key, what string) {
		bad = true
		run.Violation(key, what, replay)
	}
	if withStatic {
		if _, err := token.Update(&token.Stateful{Token: "static", Group: "tk-a", Permissions: []string{"present"}, Expires: &exp}, ""); err != nil {
			run.Inconclusive("cannot create the static token: " + err.Error())
			return
		}
	}
	// every new incarnation starts longer than anything its predecessors can reach, so
	// all file versions of a case differ in size (the property's precondition)
	B := K*A*14 + 64
	mkInc := func(i int) *token.Stateful {
		return &token.Stateful{Token: concTok, Group: "tk-a", Expires: &exp,
			Permissions: []string{fmt.Sprintf("inc%d-%s", i, strings.Repeat("p", i*B))}}
	}
	if _, err := token.Update(mkInc(0), ""); err != nil {
		run.Inconclusive("cannot create the token: " + err.Error())
		return
	}
	var clock atomic.Int64
	var mu sync.Mutex
	var recs []appendRec
	finals := map[string][]string{}
	var wg sync.WaitGroup
	start := make(chan struct{})
	var writersDone atomic.Int32
	for k := 0; k < K; k++ {
		wg.Add(1)
		go func(k int) {
			defer wg.Done()
			defer writersDone.Add(1)
			rr := run.Rand(21, idx, uint64(k))
			<-start
			var mine []appendRec
			for n := 0; n < A; n++ {
				t, etag, err := token.Get(concTok)
				if err != nil || len(t.Permissions) == 0 {
					runtime.Gosched()
					continue
				}
				c := t.Clone()
				id := fmt.Sprintf("w%d-%d", k, n)
				c.Permissions = append(c.Permissions, id)
				if rr.IntN(3) == 0 {
					runtime.Gosched()
				}
				rec := appendRec{ID: id, Inc: t.Permissions[0], Tag: etag}
				rec.Before = clock.Add(1)
				_, err = token.Update(c, etag)
				rec.After = clock.Add(1)
				rec.Acked = err == nil
				if err != nil {
					rec.Err = err.Error()
					if !errors.Is(err, token.ErrTagMismatch) {
						run.Count("updates_failed_otherwise", 1)
					}
				}
				mine = append(mine, rec)
			}
			mu.Lock()
			recs = append(recs, mine...)
			mu.Unlock()
		}(k)
	}
	deleted := 0
	wg.Add(1)
	go func() {
		defer wg.Done()
		rr := run.Rand(22, idx)
		<-start
		inc := 0
		for tries := 0; deleted < deletes && tries < 400 && int(writersDone.Load()) < K; tries++ {
			for i := rr.IntN(40); i > 0; i-- {
				runtime.Gosched()
			}
			t, etag, err := token.Get(concTok)
			if err != nil || len(t.Permissions) == 0 {
				continue
			}
			read := append([]string(nil), t.Permissions...)
			err = token.Delete(concTok, etag)
			if err != nil {
				run.Count("deletes_refused", 1)
				continue
			}
			run.Count("deletes_acked", 1)
			mu.Lock()
			if _, dup := finals[read[0]]; dup {
				fail("acknowledged-append-lost", "two deletes of the same incarnation were acknowledged")
			}
			finals[read[0]] = read[1:]
			mu.Unlock()
			deleted++
			inc++
			if _, err := token.Update(mkInc(inc), ""); err != nil {
				run.Inconclusive("re-creation after an acknowledged delete failed: " + err.Error())
				return
			}
		}
	}()
	close(start)
	wg.Wait()
	t, _, err := token.Get(concTok)
	if err != nil || len(t.Permissions) == 0 {
		fail("acknowledged-append-lost", fmt.Sprintf("the token, whose last creation was acknowledged and never deleted, is gone at the end: %v", err))
		return
	}
	if _, dup := finals[t.Permissions[0]]; dup {
		fail("revoked-token-authorises", "an incarnation whose delete was acknowledged is still there at the end")
		return
	}
	finals[t.Permissions[0]] = append([]string(nil), t.Permissions[1:]...)
	o := &listOracle{fail: fail}
	o.judge(finals, recs)
	run.Eval(int64(len(recs)))
	run.Count("acked_appends_verified", int64(o.AckedVerified))
	run.Count("refused_updates_observed", int64(o.Refused))
	run.Count("order_constraints_checked", int64(o.OrderPairsConstrained))
	// and the file a fresh process reads says the same
	live := takeView([]string{concTok, "static"}, []string{"tk-a"})
	fresh, ferr := freshView(file, []string{concTok, "static"}, []string{"tk-a"})
	if ferr != nil {
		run.Inconclusive("tokdump failed: " + ferr.Error())
	} else {
		run.Count("reload_comparisons", 1)
		if live.canon() != fresh.canon() {
			fail("reload-mismatch:concurrent-update", "after concurrent conditional updates the running process and a fresh one disagree: "+diffViews("live", "fresh", live, fresh))
		}
	}
	if !bad && o.Refused > 0 && o.AckedVerified > 0 {
		run.Distinct(fmt.Sprintf("conc K=%d static=%v deletes=%d/%d", K, withStatic, deleted, deletes))
	}
	if idx == 0 {
		n := min(len(recs), 12)
		run.Sample(map[string]any{"case": idx, "writers": K, "first_attempts": recs[:n], "incarnations": len(finals)})
	}
}

// httpConc: the same workload through the HTTP API of the real server (no deletes: a PUT
// on a token that has just been deleted is a different, separately recorded defect).
func httpConc(run *vk.Run, srv *vsrv.Server, idx uint64) {
	r := run.Rand(6, idx)
	K := 2 + r.IntN(5)
	A := 8 + r.IntN(8)
	g := histGroups[r.IntN(len(histGroups))]
	replay := map[string]any{"phase": "e2e", "history": idx, "part": "http-concurrent", "writers": K}
	bad := false
	fail := func(key, what string) {
		bad = true
		run.Violation(key, what, replay)
	}
	hdr := func(extra map[string]string) map[string]string {
		m := srv.AdminAuth()
		for k, v := range extra {
			m[k] = v
		}
		return m
	}
	exp := time.Now().Add(time.Hour).Truncate(time.Second)
	body, _ := json.Marshal(map[string]any{"expires": exp, "permissions": []string{"inc0"}})
	st, hd, _, err := srv.Do("POST", apiTok(g, ""), hdr(map[string]string{"Content-Type": "application/json"}), body)
	if err != nil || st != 201 {
		run.Inconclusive(fmt.Sprintf("cannot create a token over HTTP: %d %v", st, err))
		return
	}
	name := hd.Get("Location")
	var clock atomic.Int64
	var mu sync.Mutex
	var recs []appendRec
	var wg sync.WaitGroup
	for k := 0; k < K; k++ {
		wg.Add(1)
		go func(k int) {
			defer wg.Done()
			for n := 0; n < A; n++ {
				st, hd, b, err := srv.Do("GET", apiTok(g, name), hdr(nil), nil)
				if err != nil || st != 200 {
					continue
				}
				var cur map[string]any
				if json.Unmarshal(b, &cur) != nil {
					continue
				}
				ps, _ := cur["permissions"].([]any)
				if len(ps) == 0 {
					continue
				}
				id := fmt.Sprintf("hw%d-%d", k, n)
				cur["permissions"] = append(ps, id)
				nb, _ := json.Marshal(cur)
				inc, _ := ps[0].(string)
				rec := appendRec{ID: id, Inc: inc, Tag: hd.Get("ETag")}
				run.Note(fmt.Sprintf("http-conc %d: PUT %s If-Match %s", idx, id, rec.Tag))
				rec.Before = clock.Add(1)
				st, _, _, err = srv.Do("PUT", apiTok(g, name), hdr(map[string]string{"Content-Type": "application/json", "If-Match": rec.Tag}), nb)
				rec.After = clock.Add(1)
				if err != nil {
					continue // unknown outcome: not judged
				}
				rec.Acked = st/100 == 2
				rec.Err = fmt.Sprintf("status %d", st)
				mu.Lock()
				recs = append(recs, rec)
				mu.Unlock()
			}
		}(k)
	}
	wg.Wait()
	st, _, b, err := srv.Do("GET", apiTok(g, name), hdr(nil), nil)
	var cur struct {
		Permissions []string `json:"permissions"`
	}
	if err != nil || st != 200 || json.Unmarshal(b, &cur) != nil || len(cur.Permissions) == 0 {
		fail("acknowledged-append-lost", fmt.Sprintf("the token is gone after concurrent conditional PUTs (status %d)", st))
		return
	}
	o := &listOracle{fail: fail}
	o.judge(map[string][]string{cur.Permissions[0]: cur.Permissions[1:]}, recs)
	run.Eval(int64(len(recs)))
	run.Count("acked_appends_verified", int64(o.AckedVerified))
	run.Count("http_acked_appends_verified", int64(o.AckedVerified))
	run.Count("refused_updates_observed", int64(o.Refused))
	run.Count("http_refused_updates_observed", int64(o.Refused))
	run.Count("order_constraints_checked", int64(o.OrderPairsConstrained))
	if !bad && o.Refused > 0 && o.AckedVerified > 0 {
		run.Distinct(fmt.Sprintf("http-conc K=%d", K))
	}
}
