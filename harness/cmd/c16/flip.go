package main

import (
	"errors"
	"fmt"
	"os"
	"path/filepath"
	"runtime"
	"sync"
	"sync/atomic"
	"time"

	"github.com/jech/galene/token"

	"verif/harness/vk"
)

// Part 2b: conditional updates whose file versions all have the SAME SIZE.  The property
// tells versions apart by size or modification time, so versions that differ in
// modification time only are within its scope (the append workload of part 2 changes the
// size with every update and cannot see a version tag that has lost its sub-second part).
// K writers read the token together with its tag and replace a fixed-width field by a
// unique value of the same width, conditioned on that tag.  Oracle: the acknowledged
// updates form ONE chain from the initial value to the final one (no two acknowledged
// updates read the same version, none read a version that had already been replaced).
// Writers pace themselves: a version is replaced only when it is at least 25 ms old (new
// inodes are stamped from the kernel's coarse clock, one timer tick), and only if the file
// did not change around the read, so that the stamp belongs to the version read.  A case
// in which a new version nevertheless shows the stamp of the version it replaced is
// discarded (the property's precondition, observed rather than assumed).

type flipRec struct {
	Read  string `json:"read"`
	Wrote string `json:"wrote"`
	Acked bool   `json:"acked"`
	Err   string `json:"err,omitempty"`
}

func flipCase(run *vk.Run, idx uint64) {
	r := run.Rand(9, idx)
	K := 2 + r.IntN(6)
	A := 10 + r.IntN(30)
	dir := filepath.Join(os.Getenv("VERIF_CHILD_DIR"), fmt.Sprintf("flip-%d", idx), "var")
	os.MkdirAll(dir, 0o700)
	file := filepath.Join(dir, "tokens.jsonl")
	token.SetStatefulFilename(file)
	exp := time.Now().Add(time.Hour).Truncate(time.Second)
	replay := map[string]any{"phase": "conc", "case": idx, "writers": K, "attempts": A, "constant_size": true}
	initial := "init-0000"
	u := initial
	if _, err := token.Update(&token.Stateful{Token: concTok, Group: "tk-a", Username: &u, Permissions: []string{"present"}, Expires: &exp}, ""); err != nil {
		run.Inconclusive("cannot create the token: " + err.Error())
		return
	}
	type statPair struct {
		ns   int64
		size int64
	}
	var mu sync.Mutex
	var recs []flipRec
	var tooCoarse atomic.Bool
	var wg sync.WaitGroup
	start := make(chan struct{})
	stat := func() (statPair, bool) {
		fi, err := os.Stat(file)
		if err != nil {
			return statPair{}, false
		}
		return statPair{fi.ModTime().UnixNano(), fi.Size()}, true
	}
	for k := 0; k < K; k++ {
		wg.Add(1)
		go func(k int) {
			defer wg.Done()
			rr := run.Rand(91, idx, uint64(k))
			<-start
			var mine []flipRec
			for n := 0; n < A; n++ {
				s1, ok1 := stat()
				t, etag, err := token.Get(concTok)
				s2, ok2 := stat()
				if err != nil || t.Username == nil {
					runtime.Gosched()
					continue
				}
				read := *t.Username
				if !ok1 || !ok2 || s1 != s2 {
					// the file changed around the read: s2 may not belong to the version read
					runtime.Gosched()
					continue
				}
				c := t.Clone()
				id := fmt.Sprintf("w%02d-%05d", k, n)
				c.Username = &id
				for i := rr.IntN(4); i > 0; i-- {
					runtime.Gosched()
				}
				// the file is replaced through a new inode, whose modification time comes
				// from the kernel's coarse clock (one timer tick): wait until the version read
				// is several ticks old, so that its successor certainly gets another time
				if ok2 {
					for time.Since(time.Unix(0, s2.ns)) < 25*time.Millisecond {
						time.Sleep(time.Millisecond)
					}
				}
				_, err = token.Update(c, etag)
				if s3, ok3 := stat(); err == nil && ok2 && ok3 && s3 == s2 {
					// the version just written shows the stamp of the one it replaced: the
					// clock is coarser than the pacing assumes
					tooCoarse.Store(true)
				}
				rec := flipRec{Read: read, Wrote: id, Acked: err == nil}
				if err != nil {
					rec.Err = err.Error()
					if !errors.Is(err, token.ErrTagMismatch) {
						run.Count("updates_failed_otherwise", 1)
					}
				}
				mine = append(mine, rec)
			}
			mu.Lock()
			recs = append(recs, mine...)
			mu.Unlock()
		}(k)
	}
	close(start)
	wg.Wait()
	run.Eval(int64(len(recs)))
	// the precondition (successive versions differ in modification time): a version is only
	// replaced when it is 25 ms old; a case in which a new version nevertheless showed the
	// stamp of its predecessor is discarded
	if tooCoarse.Load() {
		run.Count("constant_size_cases_discarded_same_mtime", 1)
		return
	}
	t, _, err := token.Get(concTok)
	if err != nil || t.Username == nil {
		run.Violation("acknowledged-update-lost:constant-size", fmt.Sprintf("the token is gone or has no username at the end: %v", err), replay)
		return
	}
	final := *t.Username
	next := map[string]string{} // value read -> value written by THE acknowledged update that read it
	acked, refused := 0, 0
	for _, rc := range recs {
		if !rc.Acked {
			refused++
			continue
		}
		acked++
		if o, dup := next[rc.Read]; dup {
			run.Violation("stale-tag-accepted:constant-size", fmt.Sprintf("two conditional updates that had both read version %q were acknowledged (%s and %s): the file versions have the same size and differ in modification time only; the second one silently overwrote the first", rc.Read, o, rc.Wrote), replay)
			return
		}
		next[rc.Read] = rc.Wrote
	}
	// follow the chain
	cur, steps := initial, 0
	for {
		n, ok := next[cur]
		if !ok {
			break
		}
		cur = n
		steps++
		if steps > len(recs) {
			break
		}
	}
	if steps != acked || cur != final {
		run.Violation("acknowledged-update-lost:constant-size", fmt.Sprintf("%d updates were acknowledged, but the chain of versions from %q reaches %q after %d steps and the token finally holds %q: an acknowledged update was built on a version that had already been replaced", acked, initial, cur, steps, final), replay)
		return
	}
	run.Count("constant_size_chains_verified", 1)
	run.Count("constant_size_acked_updates", int64(acked))
	run.Count("constant_size_refused_updates", int64(refused))
	if acked > 1 && refused > 0 {
		run.Distinct(fmt.Sprintf("flip K=%d", K))
	}
}
