package main

import (
	"bytes"
	"encoding/json"
	"errors"
	"fmt"
	"os"
	"os/exec"
	"sort"
	"strings"
	"time"

	"github.com/jech/galene/token"
)

const checkHost = "galene.test"

// tokView is what one process says about one token name: does it exist, which fields
// does it carry, and does it authorise (the path a join takes: Get, then Check).
type tokView struct {
	Exists    bool     `json:"exists"`
	GetErr    string   `json:"get_err,omitempty"` // any error other than "does not exist"
	Group     string   `json:"group,omitempty"`
	Sub       bool     `json:"sub,omitempty"`
	User      *string  `json:"user,omitempty"`
	Perms     []string `json:"perms"`
	Exp       *int64   `json:"exp,omitempty"`
	Nbf       *int64   `json:"nbf,omitempty"`
	Iat       *int64   `json:"iat,omitempty"`
	By        *string  `json:"by,omitempty"`
	Auth      bool     `json:"auth"`     // Check(host, its own group) succeeded
	AuthSub   bool     `json:"auth_sub"` // Check(host, group+"/sub") succeeded
	AuthUser  string   `json:"auth_user,omitempty"`
	AuthPerms []string `json:"auth_perms"`
}

// view is everything a process honours: per token ever created, and the listing per group.
type view struct {
	Tokens  map[string]tokView  `json:"tokens"`
	Lists   map[string][]string `json:"lists"`
	ListErr map[string]string   `json:"list_err,omitempty"`
}

func nano(t *time.Time) *int64 {
	if t == nil {
		return nil
	}
	v := t.UnixNano()
	return &v
}

func strs(a []string) []string { return append([]string{}, a...) }

// takeView queries the token package of THIS process.
func takeView(names, groups []string) view {
	v := view{Tokens: map[string]tokView{}, Lists: map[string][]string{}}
	for _, n := range names {
		var tv tokView
		t, _, err := token.Get(n)
		switch {
		case err == nil && t != nil:
			tv.Exists = true
			tv.Group, tv.Sub, tv.User, tv.Perms = t.Group, t.IncludeSubgroups, t.Username, strs(t.Permissions)
			tv.Exp, tv.Nbf, tv.Iat, tv.By = nano(t.Expires), nano(t.NotBefore), nano(t.IssuedAt), t.IssuedBy
			if u, p, err := t.Check(checkHost, t.Group); err == nil {
				tv.Auth, tv.AuthUser, tv.AuthPerms = true, u, strs(p)
			}
			if _, _, err := t.Check(checkHost, t.Group+"/sub"); err == nil {
				tv.AuthSub = true
			}
		case errors.Is(err, os.ErrNotExist):
		case err != nil:
			tv.GetErr = err.Error()
		}
		if tv.Perms == nil {
			tv.Perms = []string{}
		}
		if tv.AuthPerms == nil {
			tv.AuthPerms = []string{}
		}
		v.Tokens[n] = tv
	}
	for _, g := range groups {
		l, _, err := token.List(g)
		if err != nil {
			if v.ListErr == nil {
				v.ListErr = map[string]string{}
			}
			v.ListErr[g] = err.Error()
		}
		ns := []string{}
		for _, t := range l {
			ns = append(ns, t.Token)
		}
		sort.Strings(ns)
		v.Lists[g] = ns
	}
	return v
}

func (v view) canon() string {
	b, _ := json.Marshal(v) // maps are marshalled with sorted keys
	return string(b)
}

func (v view) unparsable() string {
	for g, e := range v.ListErr {
		return "List(" + g + "): " + e
	}
	for n, t := range v.Tokens {
		if t.GetErr != "" {
			return "Get(" + n + "): " + t.GetErr
		}
	}
	return ""
}

// diffViews describes the first few differences (a = live / expected, b = fresh / observed).
func diffViews(an, bn string, a, b view) string {
	var out []string
	names := map[string]bool{}
	for n := range a.Tokens {
		names[n] = true
	}
	for n := range b.Tokens {
		names[n] = true
	}
	var ns []string
	for n := range names {
		ns = append(ns, n)
	}
	sort.Strings(ns)
	for _, n := range ns {
		x, _ := json.Marshal(a.Tokens[n])
		y, _ := json.Marshal(b.Tokens[n])
		if string(x) != string(y) {
			out = append(out, fmt.Sprintf("token %s: %s=%s %s=%s", n, an, x, bn, y))
		}
	}
	for g := range a.Lists {
		x, _ := json.Marshal(a.Lists[g])
		y, _ := json.Marshal(b.Lists[g])
		if string(x) != string(y) {
			out = append(out, fmt.Sprintf("List(%q): %s=%s %s=%s", g, an, x, bn, y))
		}
	}
	x, _ := json.Marshal(a.ListErr)
	y, _ := json.Marshal(b.ListErr)
	if string(x) != string(y) {
		out = append(out, fmt.Sprintf("list errors: %s=%s %s=%s", an, x, bn, y))
	}
	if len(out) > 4 {
		out = append(out[:4], fmt.Sprintf("... and %d more", len(out)-4))
	}
	return strings.Join(out, "; ")
}

// ---- fresh process ---------------------------------------------------------------------

type dumpArgs struct {
	File   string   `json:"file"`
	Names  []string `json:"names"`
	Groups []string `json:"groups"`
}

// tokdumpMain is the "tokdump" child mode: a freshly started process that loads the file.
func tokdumpMain() {
	var a dumpArgs
	if err := json.Unmarshal([]byte(os.Getenv("VERIF_CHILD_ARGS")), &a); err != nil {
		fmt.Fprintln(os.Stderr, "tokdump: bad args:", err)
		os.Exit(4)
	}
	token.SetStatefulFilename(a.File)
	v := takeView(a.Names, a.Groups)
	b, _ := json.Marshal(v)
	os.Stdout.Write(b)
	os.Exit(0)
}

// selfExec re-executes this binary in a child mode and returns its stdout.
func selfExec(mode string, args any, timeout time.Duration) ([]byte, int, error) {
	ab, _ := json.Marshal(args)
	cmd := exec.Command(os.Args[0])
	cmd.Env = childEnv(mode, string(ab))
	var so, se bytes.Buffer
	cmd.Stdout, cmd.Stderr = &so, &se
	if err := cmd.Start(); err != nil {
		return nil, -1, err
	}
	done := make(chan error, 1)
	go func() { done <- cmd.Wait() }()
	select {
	case err := <-done:
		if err != nil {
			var ee *exec.ExitError
			if errors.As(err, &ee) {
				return so.Bytes(), ee.ExitCode(), fmt.Errorf("%s exited with %d: %s", mode, ee.ExitCode(), tail(se.String(), 400))
			}
			return so.Bytes(), -1, err
		}
		return so.Bytes(), 0, nil
	case <-time.After(timeout):
		cmd.Process.Kill()
		<-done
		return so.Bytes(), -1, fmt.Errorf("%s: watchdog", mode)
	}
}

// childEnv is the environment of a short-lived helper process.  A race-instrumented
// binary sleeps one second at exit (GORACE atexit_sleep_ms) unless told otherwise.
func childEnv(mode, args string) []string {
	gorace := strings.TrimSpace(os.Getenv("GORACE") + " atexit_sleep_ms=0")
	return append(os.Environ(), "VERIF_CHILD="+mode, "VERIF_CHILD_ARGS="+args, "VERIF_CHILD_OUT=", "VERIF_RACE_CHILD=1", "GORACE="+gorace)
}

func tail(s string, n int) string {
	if len(s) > n {
		return s[len(s)-n:]
	}
	return s
}

// freshView starts a fresh process that loads file and reports its view.
func freshView(file string, names, groups []string) (view, error) {
	var v view
	out, _, err := selfExec("tokdump", dumpArgs{File: file, Names: names, Groups: groups}, 60*time.Second)
	if err != nil {
		return v, err
	}
	if err := json.Unmarshal(out, &v); err != nil {
		return v, fmt.Errorf("tokdump output: %v", err)
	}
	return v, nil
}
