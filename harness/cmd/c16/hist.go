package main

import (
	"bytes"
	"encoding/json"
	"fmt"
	"math/rand/v2"
	"os"
	"path/filepath"
	"sort"
	"strings"
	"sync"
	"time"

	"github.com/jech/galene/token"

	"verif/harness/vclient"
	"verif/harness/vk"
	"verif/harness/vsrv"
)

// Part 1: reload equivalence.  A history is a sequence of steps through the library, the
// websocket commands and the HTTP API, interleaved with external edits of the file; after
// every step a fresh process loads the file and its view is compared with the live one.

var histGroups = []string{"tk-a", "tk-b"}

const day = 24 * time.Hour

type hist struct {
	run   *vk.Run
	r     *rand.Rand
	idx   uint64
	e2e   bool
	file  string
	n     int
	ever  []string
	alive map[string]bool   // believed present (acknowledged creation, no acknowledged removal)
	sweep map[string]bool   // alive and expired for more than 8 days
	grp   map[string]string // name -> group
	user  map[string]string // name -> username carried by the token ("" = none)
	rev   map[string]string // name -> how it was revoked
	tags  map[string]string // name -> a tag read earlier
	tagV  map[string]int    // file version at which that tag was read
	ver   int               // number of acknowledged changes + external edits so far
	trail []string
	bad   bool
	// shape
	routes                map[string]bool
	sawExt, sawSweep      bool
	sawStaleRefused       bool
	srv                   *vsrv.Server
	ws                    map[string]*vclient.Client // group -> op client joined there
	stepsRun, comparisons int
}

func (h *hist) note(s string) {
	h.trail = append(h.trail, s)
	h.run.Note(fmt.Sprintf("hist %d: %s", h.idx, s))
}

func (h *hist) replay() map[string]any {
	ph := "hist"
	if h.e2e {
		ph = "e2e"
	}
	t := h.trail
	if len(t) > 80 {
		t = t[len(t)-80:]
	}
	return map[string]any{"phase": ph, "history": h.idx, "step": h.stepsRun, "trail": t}
}

func (h *hist) fail(key, what string) {
	h.bad = true
	h.run.Violation(key, what, h.replay())
}

// expiry classes: every offset is at least 120 s away from "now" and from the one-week
// sweep boundary.
func (h *hist) pickExpiry(allowSweepable bool) (time.Time, bool) {
	now := time.Now()
	switch x := h.r.IntN(10); {
	case x < 6:
		return now.Add(120*time.Second + time.Duration(h.r.Int64N(int64(30*day)))), false
	case x < 8 || !allowSweepable:
		return now.Add(-120*time.Second - time.Duration(h.r.Int64N(int64(6*day)))), false
	default:
		return now.Add(-8*day - time.Duration(h.r.Int64N(int64(30*day)))), true
	}
}

func (h *hist) newSpec(allowSub bool) (*token.Stateful, bool) {
	g := histGroups[h.r.IntN(len(histGroups))]
	all := []string{"present", "message", "op", "token", "caption"}
	perms := []string{}
	for _, p := range all {
		if h.r.IntN(3) == 0 {
			perms = append(perms, p)
		}
	}
	exp, sweepable := h.pickExpiry(true)
	exp = exp.Truncate(time.Millisecond)
	t := &token.Stateful{Group: g, Permissions: perms, Expires: &exp}
	if h.r.IntN(3) == 0 {
		u := fmt.Sprintf("tu%d-%d", h.idx, h.n)
		t.Username = &u
	}
	switch h.r.IntN(6) {
	case 0:
		nb := time.Now().Add(-120*time.Second - time.Duration(h.r.Int64N(int64(day)))).Truncate(time.Millisecond)
		t.NotBefore = &nb
	case 1:
		nb := time.Now().Add(120*time.Second + time.Duration(h.r.Int64N(int64(day)))).Truncate(time.Millisecond)
		t.NotBefore = &nb
	}
	if allowSub && h.r.IntN(4) == 0 {
		t.IncludeSubgroups = true
	}
	return t, sweepable
}

func (h *hist) created(name string, t *token.Stateful, sweepable bool) {
	h.ever = append(h.ever, name)
	h.alive[name] = true
	h.grp[name] = t.Group
	if t.Username != nil {
		h.user[name] = *t.Username
	}
	if sweepable {
		h.sweep[name] = true
	}
	h.ver++
}

func (h *hist) revoked(name, how string) {
	delete(h.alive, name)
	delete(h.sweep, name)
	h.rev[name] = how
	h.ver++
}

func (h *hist) pickAlive() string {
	if len(h.alive) == 0 {
		return ""
	}
	var ns []string
	for n := range h.alive {
		ns = append(ns, n)
	}
	sort.Strings(ns)
	return ns[h.r.IntN(len(ns))]
}

func (h *hist) route() string {
	if !h.e2e {
		return "lib"
	}
	return []string{"lib", "http", "http", "ws", "ws"}[h.r.IntN(5)]
}

func apiTok(g, t string) string {
	return "/galene-api/v0/.groups/" + g + "/.tokens/" + t
}

func (h *hist) hdr(extra map[string]string) map[string]string {
	m := h.srv.AdminAuth()
	for k, v := range extra {
		m[k] = v
	}
	return m
}

// wsToken sends a token command and waits for the answer.
func (h *hist) wsToken(g, kind string, value any) (vclient.Msg, bool) {
	c := h.ws[g]
	from := c.EventCount()
	m := vclient.Msg{"type": "groupaction", "kind": kind, "source": c.ID}
	if value != nil {
		m["value"] = value
	}
	if c.Send(m) != nil {
		return nil, false
	}
	want := "token"
	if kind == "listtokens" {
		want = "tokenlist"
	}
	return c.WaitForFrom(from, func(m vclient.Msg) bool {
		return m.Str("type") == "usermessage" && m.Str("kind") == want
	}, 30*time.Second)
}

func apiBody(t *token.Stateful) []byte {
	c := *t
	c.Token, c.Group = "", ""
	b, _ := json.Marshal(&c)
	return b
}

func (h *hist) stepCreate() string {
	rt := h.route()
	h.routes[rt] = true
	spec, sweepable := h.newSpec(rt != "ws")
	h.n++
	switch rt {
	case "lib":
		spec.Token = fmt.Sprintf("h%dn%d", h.idx, h.n)
		h.note(fmt.Sprintf("lib create %s in %s (sweepable=%v)", spec.Token, spec.Group, sweepable))
		if _, err := token.Update(spec, ""); err != nil {
			h.run.Count("creates_refused", 1)
			return "create"
		}
		h.created(spec.Token, spec, sweepable)
	case "http":
		h.note(fmt.Sprintf("http POST token in %s (sweepable=%v)", spec.Group, sweepable))
		st, hd, _, err := h.srv.Do("POST", apiTok(spec.Group, ""), h.hdr(map[string]string{"Content-Type": "application/json"}), apiBody(spec))
		if err != nil || st != 201 || hd.Get("Location") == "" {
			h.run.Count("creates_refused", 1)
			return "http-create"
		}
		h.created(hd.Get("Location"), spec, sweepable)
		h.run.Count("http_creates", 1)
		return "http-create"
	case "ws":
		val := map[string]any{"group": spec.Group, "permissions": spec.Permissions, "expires": spec.Expires.Format(time.RFC3339Nano)}
		if spec.Username != nil {
			val["username"] = *spec.Username
		}
		if spec.NotBefore != nil {
			val["not-before"] = spec.NotBefore.Format(time.RFC3339Nano)
		}
		h.note(fmt.Sprintf("ws maketoken in %s (sweepable=%v)", spec.Group, sweepable))
		m, ok := h.wsToken(spec.Group, "maketoken", val)
		if !ok {
			h.run.Inconclusive("no answer to maketoken within the watchdog")
			h.bad = true
			return "ws-create"
		}
		v, _ := m["value"].(map[string]any)
		name, _ := v["token"].(string)
		if m.Str("error") != "" || name == "" {
			h.run.Count("creates_refused", 1)
			return "ws-create"
		}
		h.created(name, spec, sweepable)
		h.run.Count("ws_creates", 1)
		return "ws-create"
	}
	return "create"
}

// conditional: choose between the tag just read and a tag read before a later change.
func (h *hist) chooseTag(name, fresh string) (string, bool) {
	old, ok := h.tags[name]
	stale := ok && h.tagV[name] < h.ver && old != fresh
	if stale && h.r.IntN(3) == 0 {
		return old, true
	}
	return fresh, false
}

func (h *hist) rememberTag(name, tag string) {
	if tag != "" && h.r.IntN(2) == 0 {
		h.tags[name] = tag
		h.tagV[name] = h.ver
	}
}

func (h *hist) stepEdit() string {
	name := h.pickAlive()
	if name == "" {
		return h.stepCreate()
	}
	rt := h.route()
	h.routes[rt] = true
	g := h.grp[name]
	exp, sweepable := h.pickExpiry(true)
	exp = exp.Truncate(time.Millisecond)
	switch rt {
	case "lib":
		t, etag, err := token.Get(name)
		if err != nil {
			h.note(fmt.Sprintf("lib edit %s: Get failed: %v", name, err))
			return "edit"
		}
		use, stale := h.chooseTag(name, etag)
		h.rememberTag(name, etag)
		c := t.Clone()
		c.Expires = &exp
		c.Permissions = append(c.Permissions, fmt.Sprintf("e%d", h.n))
		h.n++
		h.note(fmt.Sprintf("lib edit %s stale=%v sweepable=%v", name, stale, sweepable))
		_, err = token.Update(c, use)
		h.judgeConditional("edit", name, stale, err == nil, sweepable)
		return "edit"
	case "http":
		st, hd, body, err := h.srv.Do("GET", apiTok(g, name), h.hdr(nil), nil)
		if err != nil || st != 200 {
			h.note(fmt.Sprintf("http GET %s: status %d", name, st))
			return "http-edit"
		}
		etag := hd.Get("ETag")
		use, stale := h.chooseTag(name, etag)
		h.rememberTag(name, etag)
		var cur map[string]any
		json.Unmarshal(body, &cur)
		cur["expires"] = exp.Format(time.RFC3339Nano)
		ps, _ := cur["permissions"].([]any)
		cur["permissions"] = append(ps, fmt.Sprintf("e%d", h.n))
		h.n++
		nb, _ := json.Marshal(cur)
		h.note(fmt.Sprintf("http PUT %s If-Match stale=%v sweepable=%v", name, stale, sweepable))
		st, _, _, err = h.srv.Do("PUT", apiTok(g, name), h.hdr(map[string]string{"Content-Type": "application/json", "If-Match": use}), nb)
		if err != nil {
			h.run.Inconclusive("http PUT failed: " + err.Error())
			h.bad = true
			return "http-edit"
		}
		h.judgeConditional("http-edit", name, stale, st/100 == 2, sweepable)
		h.run.Count("http_edits", 1)
		return "http-edit"
	case "ws":
		h.note(fmt.Sprintf("ws edittoken %s sweepable=%v", name, sweepable))
		m, ok := h.wsToken(g, "edittoken", map[string]any{"token": name, "expires": exp.Format(time.RFC3339Nano)})
		if !ok {
			h.run.Inconclusive("no answer to edittoken within the watchdog")
			h.bad = true
			return "ws-edit"
		}
		if m.Str("error") == "" {
			h.ver++
			if sweepable {
				h.sweep[name] = true
			} else {
				delete(h.sweep, name)
			}
			h.run.Count("ws_edits", 1)
		}
		return "ws-edit"
	}
	return "edit"
}

func (h *hist) judgeConditional(kind, name string, stale, acked, sweepable bool) {
	if stale {
		if acked {
			h.fail("stale-tag-accepted:"+kind, fmt.Sprintf("%s of %s conditioned on a tag read before a later acknowledged change was accepted", kind, name))
		} else {
			h.sawStaleRefused = true
			h.run.Count("stale_tags_refused", 1)
		}
	}
	if !acked {
		return
	}
	switch {
	case strings.HasSuffix(kind, "delete"):
		h.revoked(name, kind)
	default:
		h.ver++
		if sweepable {
			h.sweep[name] = true
		} else {
			delete(h.sweep, name)
		}
	}
	h.run.Count("conditional_ops_acked", 1)
}

func (h *hist) stepDelete() string {
	name := h.pickAlive()
	if name == "" {
		return h.stepCreate()
	}
	rt := h.route()
	if rt == "ws" {
		rt = "http" // there is no signalling command that deletes a token
	}
	h.routes[rt] = true
	g := h.grp[name]
	switch rt {
	case "lib":
		_, etag, err := token.Get(name)
		if err != nil {
			return "delete"
		}
		use, stale := h.chooseTag(name, etag)
		h.note(fmt.Sprintf("lib delete %s stale=%v", name, stale))
		err = token.Delete(name, use)
		h.judgeConditional("delete", name, stale, err == nil, false)
		return "delete"
	default:
		st, hd, _, err := h.srv.Do("GET", apiTok(g, name), h.hdr(nil), nil)
		if err != nil || st != 200 {
			return "http-delete"
		}
		use, stale := h.chooseTag(name, hd.Get("ETag"))
		h.note(fmt.Sprintf("http DELETE %s stale=%v", name, stale))
		st, _, _, err = h.srv.Do("DELETE", apiTok(g, name), h.hdr(map[string]string{"If-Match": use}), nil)
		if err != nil {
			h.run.Inconclusive("http DELETE failed: " + err.Error())
			h.bad = true
			return "http-delete"
		}
		h.judgeConditional("http-delete", name, stale, st/100 == 2, false)
		h.run.Count("http_deletes", 1)
		return "http-delete"
	}
}

func (h *hist) stepExpire() string {
	h.note(fmt.Sprintf("expire (sweepable now: %d)", len(h.sweep)))
	if err := token.Expire(); err != nil {
		h.run.Count("expire_errors", 1)
		return "expire"
	}
	var ns []string
	for n := range h.sweep {
		ns = append(ns, n)
	}
	for _, n := range ns {
		h.revoked(n, "swept")
		h.sawSweep = true
		h.run.Count("tokens_swept", 1)
	}
	return "expire"
}

func (h *hist) stepExtAppend() string {
	spec, sweepable := h.newSpec(true)
	h.n++
	spec.Token = fmt.Sprintf("x%dn%d", h.idx, h.n)
	b, _ := json.Marshal(spec)
	h.note(fmt.Sprintf("external append %s (sweepable=%v)", spec.Token, sweepable))
	os.MkdirAll(filepath.Dir(h.file), 0o700)
	f, err := os.OpenFile(h.file, os.O_CREATE|os.O_WRONLY|os.O_APPEND, 0o600)
	if err != nil {
		h.run.Inconclusive("cannot append to the token file: " + err.Error())
		h.bad = true
		return "ext-append"
	}
	f.Write(append(b, '\n'))
	f.Close()
	h.created(spec.Token, spec, sweepable)
	h.sawExt = true
	h.run.Count("external_edits", 1)
	return "ext-append"
}

// stepExtRemove rewrites the file without one of its lines (temp file + rename, so that
// the external editor itself never exposes a partial file).
func (h *hist) stepExtRemove() string {
	name := h.pickAlive()
	if name == "" {
		return h.stepExtAppend()
	}
	data, err := os.ReadFile(h.file)
	if err != nil {
		return h.stepExtAppend()
	}
	var keep [][]byte
	found := false
	for _, l := range bytes.Split(data, []byte("\n")) {
		if len(bytes.TrimSpace(l)) == 0 {
			continue
		}
		var t struct {
			Token string `json:"token"`
		}
		if json.Unmarshal(l, &t) == nil && t.Token == name {
			found = true
			continue
		}
		keep = append(keep, l)
	}
	if !found {
		return h.stepExtAppend()
	}
	h.note("external removal of the line of " + name)
	out := bytes.Join(keep, []byte("\n"))
	if len(keep) > 0 {
		out = append(out, '\n')
	}
	tmp := h.file + ".ext-tmp"
	if err := os.WriteFile(tmp, out, 0o600); err != nil || os.Rename(tmp, h.file) != nil {
		h.run.Inconclusive("cannot rewrite the token file externally")
		h.bad = true
		return "ext-remove"
	}
	h.revoked(name, "external")
	h.sawExt = true
	h.run.Count("external_edits", 1)
	return "ext-remove"
}

// stepRead lists through one route and compares the names with what the library says.
func (h *hist) stepRead() string {
	rt := h.route()
	if h.e2e && rt == "lib" {
		rt = "ws"
	}
	h.routes[rt] = true
	g := histGroups[h.r.IntN(len(histGroups))]
	var got []string
	switch rt {
	case "lib":
		h.note("lib list/get")
		token.List(g)
		if n := h.pickAlive(); n != "" {
			token.Get(n)
		}
		return "list"
	case "http":
		h.note("http GET tokens of " + g)
		st, _, body, err := h.srv.Do("GET", apiTok(g, ""), h.hdr(nil), nil)
		if err != nil || st != 200 || json.Unmarshal(body, &got) != nil {
			return "http-list"
		}
	case "ws":
		h.note("ws listtokens in " + g)
		m, ok := h.wsToken(g, "listtokens", nil)
		if !ok || m.Str("error") != "" {
			return "ws-list"
		}
		l, _ := m["value"].([]any)
		for _, x := range l {
			if tm, ok := x.(map[string]any); ok {
				if s, ok := tm["token"].(string); ok {
					got = append(got, s)
				}
			}
		}
	}
	sort.Strings(got)
	fv, err := freshView(h.file, nil, []string{g})
	if err != nil {
		h.run.Inconclusive("tokdump failed: " + err.Error())
		h.bad = true
		return rt + "-list"
	}
	want := fv.Lists[g]
	if strings.Join(got, ",") != strings.Join(want, ",") {
		h.fail("reload-mismatch:"+rt+"-list", fmt.Sprintf("the %s listing of %s is %v, a fresh process reads %v from the file", rt, g, got, want))
	}
	h.run.Count("listings_compared", 1)
	return rt + "-list"
}

// compare is the oracle run after every step.
func (h *hist) compare(kind string) {
	live := takeView(h.ever, histGroups)
	fresh, err := freshView(h.file, h.ever, histGroups)
	if err != nil {
		h.run.Inconclusive("tokdump failed: " + err.Error())
		h.bad = true
		return
	}
	h.comparisons++
	h.run.Count("reload_comparisons", 1)
	if live.canon() != fresh.canon() {
		h.fail("reload-mismatch:"+kind, "after "+kind+" the running process and a freshly started one disagree: "+diffViews("live", "fresh", live, fresh))
		return
	}
	auth := 0
	for n, tv := range fresh.Tokens {
		if tv.Auth {
			auth++
		}
		if how, gone := h.rev[n]; gone {
			lv := live.Tokens[n]
			if tv.Auth || tv.AuthSub || lv.Auth || lv.AuthSub {
				h.fail("revoked-token-authorises", fmt.Sprintf("token %s was revoked (%s) and authorises again after %s (live=%v fresh=%v)", n, how, kind, lv.Auth, tv.Auth))
				return
			}
			h.run.Count("revoked_tokens_rechecked", 1)
		}
	}
	h.run.Count("authorising_tokens_compared", int64(auth))
	h.run.Count("token_views_compared", int64(len(fresh.Tokens)))
}

func (h *hist) step() {
	var kind string
	switch x := h.r.IntN(100); {
	case x < 30:
		kind = h.stepCreate()
	case x < 50:
		kind = h.stepEdit()
	case x < 64:
		kind = h.stepDelete()
	case x < 74:
		kind = h.stepExpire()
	case x < 82:
		kind = h.stepRead()
	case x < 92:
		kind = h.stepExtAppend()
	default:
		kind = h.stepExtRemove()
	}
	h.stepsRun++
	h.run.Eval(1)
	if !h.bad {
		h.compare(kind)
	}
}

func newHist(run *vk.Run, idx uint64, e2e bool, file string) *hist {
	stream := uint64(1)
	if e2e {
		stream = 5
	}
	return &hist{run: run, r: run.Rand(stream, idx), idx: idx, e2e: e2e, file: file,
		alive: map[string]bool{}, sweep: map[string]bool{}, grp: map[string]string{}, user: map[string]string{},
		rev: map[string]string{}, tags: map[string]string{}, tagV: map[string]int{}, routes: map[string]bool{}}
}

func (h *hist) finish() {
	if h.bad {
		return
	}
	var rs []string
	for r := range h.routes {
		rs = append(rs, r)
	}
	sort.Strings(rs)
	if len(h.rev) > 0 {
		h.run.Distinct(fmt.Sprintf("hist routes=%s ext=%v sweep=%v stale=%v revoked=%d steps=%d", strings.Join(rs, "+"), h.sawExt, h.sawSweep, h.sawStaleRefused, min(len(h.rev), 6), h.stepsRun/10))
	}
	if h.idx == 0 {
		h.run.Sample(map[string]any{"history": h.idx, "e2e": h.e2e, "trail_head": h.trail[:min(len(h.trail), 25)]})
	}
}

// libHistory runs one history through the library only, on its own file.
func libHistory(run *vk.Run, idx uint64, steps int) {
	dir := filepath.Join(os.Getenv("VERIF_CHILD_DIR"), fmt.Sprintf("hist-%d", idx), "var")
	if idx%3 != 0 {
		os.MkdirAll(dir, 0o700) // every third history starts without the directory
	} else {
		os.MkdirAll(filepath.Dir(dir), 0o700)
	}
	file := filepath.Join(dir, "tokens.jsonl")
	token.SetStatefulFilename(file)
	h := newHist(run, idx, false, file)
	for i := 0; i < steps && !h.bad; i++ {
		h.step()
	}
	h.finish()
}

// e2eHistory runs histories against the real server of this process.
func e2eHistory(run *vk.Run, srv *vsrv.Server, idx uint64, steps int) {
	h := newHist(run, idx, true, srv.TokenFile)
	h.srv = srv
	h.ws = map[string]*vclient.Client{}
	for _, g := range histGroups {
		c, err := vclient.Dial(srv, fmt.Sprintf("c16-%d-%s", idx, g))
		if err != nil {
			run.Inconclusive("dial failed: " + err.Error())
			return
		}
		defer c.Close()
		if m, ok := c.Join(g, "op1", "pw-op1"); !ok || m.Str("kind") != "join" {
			run.Inconclusive("the operator could not join " + g)
			return
		}
		h.ws[g] = c
	}
	for i := 0; i < steps && !h.bad; i++ {
		h.step()
	}
	if !h.bad {
		h.joinChecks()
	}
	h.finish()
}

// joinChecks: the authorisation path a real client takes.  Revoked tokens must be refused;
// tokens the fresh process says authorise are tried too (positive observation only).
func (h *hist) joinChecks() {
	fresh, err := freshView(h.file, h.ever, histGroups)
	if err != nil {
		return
	}
	var revoked, good []string
	for _, n := range h.ever {
		if _, gone := h.rev[n]; gone {
			revoked = append(revoked, n)
		} else if fresh.Tokens[n].Auth {
			good = append(good, n)
		}
	}
	if len(revoked) > 5 {
		revoked = revoked[:5]
	}
	if len(good) > 3 {
		good = good[:3]
	}
	var wg sync.WaitGroup
	try := func(n string, mustFail bool, k int) {
		defer wg.Done()
		c, err := vclient.Dial(h.srv, fmt.Sprintf("c16-%d-j%d", h.idx, k))
		if err != nil {
			return
		}
		defer c.Close()
		h.run.Note(fmt.Sprintf("hist %d: join %s with token %s", h.idx, h.grp[n], n))
		m, ok := c.JoinToken(h.grp[n], fmt.Sprintf("guest%d", k), n)
		if !ok {
			return
		}
		if mustFail {
			if m.Str("kind") == "join" {
				h.run.Violation("revoked-token-authorises", fmt.Sprintf("a client joined %s with token %s although it was revoked (%s)", h.grp[n], n, h.rev[n]), h.replay())
			} else {
				h.run.Count("revoked_joins_refused", 1)
			}
		} else if m.Str("kind") == "join" {
			h.run.Count("token_joins_accepted", 1)
		}
	}
	for i, n := range revoked {
		wg.Add(1)
		go try(n, true, i)
	}
	for i, n := range good {
		wg.Add(1)
		go try(n, false, 100+i)
	}
	wg.Wait()
}
