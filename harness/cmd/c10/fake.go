package main

import (
	"net"
	"strings"
	"sync"
	"sync/atomic"

	"github.com/jech/galene/conn"
	"github.com/jech/galene/group"
)

// fakeClient is a harness-side group.Client.  Its own state is synchronised so that the
// harness cannot be the source of a race report.
type fakeClient struct {
	id string

	mu       sync.Mutex
	g        *group.Group
	username string
	perms    []string
	told     []string // ids this client was told about with 'add'

	pushed atomic.Int64
	joined atomic.Int64
	kicked atomic.Int64
	onKick func(*fakeClient)
	onPush func(kind, id string)
}

func (c *fakeClient) Group() *group.Group {
	c.mu.Lock()
	defer c.mu.Unlock()
	return c.g
}
func (c *fakeClient) setGroup(g *group.Group) {
	c.mu.Lock()
	c.g = g
	c.mu.Unlock()
}
func (c *fakeClient) Addr() net.Addr { return nil }
func (c *fakeClient) Id() string     { return c.id }
func (c *fakeClient) Username() string {
	c.mu.Lock()
	defer c.mu.Unlock()
	return c.username
}
func (c *fakeClient) Init(u string, p []string) {
	c.mu.Lock()
	c.username = u
	c.perms = append([]string(nil), p...)
	c.mu.Unlock()
}
func (c *fakeClient) Permissions() []string {
	c.mu.Lock()
	defer c.mu.Unlock()
	return append([]string(nil), c.perms...)
}
func (c *fakeClient) Data() map[string]interface{} { return nil }
func (c *fakeClient) PushConn(g *group.Group, id string, up conn.Up, tracks []conn.UpTrack, replace string) error {
	return nil
}
func (c *fakeClient) RequestConns(target group.Client, g *group.Group, id string) error { return nil }
func (c *fakeClient) Joined(group, kind string) error {
	c.joined.Add(1)
	return nil
}
func (c *fakeClient) PushClient(group, kind, id, username string, perms []string, data map[string]interface{}) error {
	c.pushed.Add(1)
	if kind == "add" {
		c.mu.Lock()
		c.told = append(c.told, id)
		c.mu.Unlock()
	}
	if c.onPush != nil {
		c.onPush(kind, id)
	}
	return nil
}
func (c *fakeClient) Kick(id string, user *string, message string) error {
	c.kicked.Add(1)
	if c.onKick != nil {
		c.onKick(c)
	}
	return nil
}

// toldAnOperator reports whether one of the members this client was told about when it
// joined is an operator (harness ids of operators contain "-op-").
func (c *fakeClient) toldAnOperator() bool {
	c.mu.Lock()
	defer c.mu.Unlock()
	for _, id := range c.told {
		if id != c.id && strings.Contains(id, "-op-") {
			return true
		}
	}
	return false
}
