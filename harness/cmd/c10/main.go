// C10 - admission rules (lock, capacity, time window, autolock/autokick) always hold.
//
// Histories of AddClient / DelClient / SetLocked / Locked / ClientCount / GetClients on one
// group, executed by 3-8 goroutines with fake clients on the mutex-instrumented copy
// (random yields/sleeps around every lock acquisition), are recorded at the call boundary
// with logical stamps and checked for linearizability against a sequential admission
// model with porcupine.  Reads are part of the history, so "locked again before any later
// join is evaluated" is observable.  Independent invariants are sampled directly.
package main

import (
	"encoding/json"
	"errors"
	"fmt"
	"io"
	"os"
	"path/filepath"
	"sort"
	"strings"
	"sync"
	"sync/atomic"
	"time"

	"github.com/anishathalye/porcupine"

	"github.com/jech/galene/group"
	"github.com/jech/galene/vsync"

	"verif/harness/vk"
	"verif/harness/vsrv"
)

type config struct {
	Max      int  `json:"max"`
	Autolock bool `json:"autolock"`
	Autokick bool `json:"autokick"`
	Window   int  `json:"window"` // 0 none, 1 open (not-before past, expires future), 2 not yet open, 3 closed
	// Faulty: during the history the description file is replaced by an unreadable one and
	// repaired again ("description reload" with a fault): while it is unreadable nobody is
	// admitted, and the members, the lock and the capacity must survive it
	Faulty bool `json:"faulty,omitempty"`
	// Reload: during the history max-clients is edited on disk (a file of the same size with a
	// new modification time): later joins are decided by the new value
	Reload bool `json:"reload,omitempty"`
}

type input struct {
	Op   string `json:"op"` // join, leave, lock, unlock, locked?, count?, members?, break, repair, setmax
	ID   string `json:"id,omitempty"`
	IsOp bool   `json:"isop,omitempty"`
	Max  int    `json:"max,omitempty"`
}

type output struct {
	OK      bool   `json:"ok,omitempty"`
	Locked  bool   `json:"locked,omitempty"`
	Count   int    `json:"count,omitempty"`
	Members string `json:"members,omitempty"`
	Err     string `json:"err,omitempty"`
	// Unreadable: the join failed because the description file could not be parsed
	Unreadable bool `json:"unreadable,omitempty"`
	// Absent: a query found no group of that name in memory (possible only while it has no members)
	Absent bool `json:"absent,omitempty"`
}

// state is encoded as a string so that porcupine can compare states with ==.
type state struct {
	locked  bool
	broken  bool            // the description file is unreadable
	max     int             // max-clients in force (as last written to the file)
	members map[string]bool // id -> is operator
}

func encode(s state) string {
	var ids []string
	for id, op := range s.members {
		if op {
			ids = append(ids, id+"*")
		} else {
			ids = append(ids, id)
		}
	}
	sort.Strings(ids)
	l := "u"
	if s.locked {
		l = "L"
	}
	if s.broken {
		l += "B"
	}
	return fmt.Sprintf("%s%d|%s", l, s.max, strings.Join(ids, ","))
}

func decode(e string) state {
	s := state{members: map[string]bool{}}
	parts := strings.SplitN(e, "|", 2)
	s.locked = strings.HasPrefix(parts[0], "L")
	flags := strings.TrimRight(parts[0], "0123456789")
	s.broken = strings.HasSuffix(flags, "B")
	fmt.Sscan(parts[0][len(flags):], &s.max)
	if len(parts) > 1 && parts[1] != "" {
		for _, id := range strings.Split(parts[1], ",") {
			if strings.HasSuffix(id, "*") {
				s.members[strings.TrimSuffix(id, "*")] = true
			} else {
				s.members[id] = false
			}
		}
	}
	return s
}

func hasOp(s state) bool {
	for _, op := range s.members {
		if op {
			return true
		}
	}
	return false
}

func membersString(ids []string) string {
	sort.Strings(ids)
	return strings.Join(ids, ",")
}

// model is the sequential admission specification, written from the property text.
func model(cfg config) porcupine.Model {
	autolock := func(s *state) {
		// "with autolock the group starts locked and is locked again as soon as its last
		// operator leaves, before any later join is evaluated"
		if cfg.Autolock && !s.locked && !hasOp(*s) {
			s.locked = true
		}
	}
	return porcupine.Model{
		Init: func() interface{} {
			// "with autolock the group starts locked": the lock is applied when the group
			// object is created, which is observable before the first join is decided
			s := state{members: map[string]bool{}, locked: cfg.Autolock, max: cfg.Max}
			return encode(s)
		},
		Step: func(st, in, out interface{}) (bool, interface{}) {
			s := decode(st.(string))
			i := in.(input)
			o := out.(output)
			switch i.Op {
			case "setmax":
				s.max = i.Max
				return true, encode(s)
			case "break":
				s.broken = true
				return true, encode(s)
			case "repair":
				s.broken = false
				return true, encode(s)
			case "join":
				if o.Unreadable {
					// the attempt found the description unreadable: legal only while it is, and
					// nobody is admitted.  An EMPTY group is unloaded by the failed attempt and
					// starts afresh when it is next loaded.  (An attempt that read the file
					// before it became unreadable is decided by the ordinary rules below: the
					// property orders joins by their admission decision, not by the file read.)
					if !s.broken {
						return false, st
					}
					if len(s.members) == 0 {
						s.locked = cfg.Autolock
					}
					return true, encode(s)
				}
				autolock(&s)
				admit := true
				if _, dup := s.members[i.ID]; dup {
					admit = false
				}
				if !i.IsOp {
					if s.locked || cfg.Window >= 2 || (cfg.Autokick && !hasOp(s)) || (s.max > 0 && len(s.members) >= s.max) {
						admit = false
					}
				}
				if o.OK != admit {
					return false, st
				}
				if admit {
					s.members[i.ID] = i.IsOp
				}
				return true, encode(s)
			case "leave":
				delete(s.members, i.ID)
				autolock(&s)
				return true, encode(s)
			case "lock":
				s.locked = true
				return true, encode(s)
			case "unlock":
				s.locked = false
				return true, encode(s)
			case "locked?", "count?", "members?":
				if o.Absent {
					return len(s.members) == 0, st
				}
				switch i.Op {
				case "locked?":
					return o.Locked == s.locked, st
				case "count?":
					return o.Count == len(s.members), st
				}
				var ids []string
				for id := range s.members {
					ids = append(ids, id)
				}
				return o.Members == membersString(ids), st
			}
			return false, st
		},
		DescribeOperation: func(in, out interface{}) string {
			return fmt.Sprintf("%+v -> %+v", in, out)
		},
	}
}

func strp(s string) *string { return &s }

var groupSeq atomic.Int64

func writeGroup(name string, cfg config) {
	d := map[string]any{
		"users": map[string]any{
			"op1": map[string]any{"password": "pw-op1", "permissions": "op"},
		},
		"wildcard-user": map[string]any{"password": map[string]any{"type": "wildcard"}, "permissions": "present"},
	}
	if cfg.Max > 0 {
		d["max-clients"] = cfg.Max
	}
	if cfg.Autolock {
		d["autolock"] = true
	}
	if cfg.Autokick {
		d["autokick"] = true
	}
	far := 400 * 24 * time.Hour
	switch cfg.Window {
	case 1:
		d["not-before"] = time.Now().Add(-far).UTC().Format(time.RFC3339)
		d["expires"] = time.Now().Add(far).UTC().Format(time.RFC3339)
	case 2:
		d["not-before"] = time.Now().Add(far).UTC().Format(time.RFC3339)
	case 3:
		d["expires"] = time.Now().Add(-far).UTC().Format(time.RFC3339)
	}
	s := &vsrv.Server{GroupsDir: group.Directory}
	s.WriteGroup(name, d)
}

type recorder struct {
	mu    sync.Mutex
	ops   []porcupine.Operation
	clock atomic.Int64
}

func (r *recorder) do(client int, in input, f func() output) output {
	call := r.clock.Add(1)
	out := f()
	ret := r.clock.Add(1)
	r.mu.Lock()
	r.ops = append(r.ops, porcupine.Operation{ClientId: client, Input: in, Call: call, Output: out, Return: ret})
	r.mu.Unlock()
	return out
}

func runHistory(run *vk.Run, idx uint64) {
	r := run.Rand(1, idx)
	cfg := config{Max: []int{0, 1, 2, 3, 5}[r.IntN(5)], Autolock: r.IntN(3) == 0, Autokick: r.IntN(4) == 0, Window: []int{0, 0, 1, 1, 2, 3}[r.IntN(6)]}
	cfg.Faulty = idx%4 == 3
	if idx%8 == 5 {
		cfg.Reload = true
		if cfg.Max == 0 {
			cfg.Max = 3
		}
	}
	name := fmt.Sprintf("h%d-%d", idx, groupSeq.Add(1))
	writeGroup(name, cfg)
	lastWrite := time.Now()
	threads := 3 + r.IntN(6)
	perThread := 3 + r.IntN(6)
	rec := &recorder{}
	var addsSeen sync.Map // id -> true: some client was told about this id
	var rejected sync.Map
	var wg sync.WaitGroup
	var kickWG sync.WaitGroup
	var nonOpOverCap atomic.Int64
	var opless atomic.Bool
	stopSampler := make(chan struct{})
	// sampler: the number of non-operator members never exceeds max-clients
	var samplerWG sync.WaitGroup
	if cfg.Max > 0 && !cfg.Reload {
		samplerWG.Add(1)
		go func() {
			defer samplerWG.Done()
			for {
				select {
				case <-stopSampler:
					return
				default:
				}
				if g := group.Get(name); g != nil {
					n := 0
					for _, c := range g.GetClients(nil) {
						if !strings.Contains(c.Id(), "-op-") {
							n++
						}
					}
					if n > cfg.Max {
						nonOpOverCap.Store(int64(n))
					}
				}
				time.Sleep(50 * time.Microsecond)
			}
		}()
	}
	for t := 0; t < threads; t++ {
		wg.Add(1)
		go func(t int) {
			defer wg.Done()
			rr := run.Rand(2, idx, uint64(t))
			var mine []*fakeClient
			broken := false
			if cfg.Faulty && t == 0 {
				defer func() {
					if broken {
						rec.do(t, input{Op: "repair"}, func() output { writeGroup(name, cfg); return output{} })
					}
				}()
			}
			for k := 0; k < perThread; k++ {
				if cfg.Reload && t == 0 && rr.IntN(2) == 0 {
					// a new inode is stamped from the kernel's coarse clock: a version is only
					// replaced when it is 25 ms old, so that the file certainly looks changed
					for time.Since(lastWrite) < 25*time.Millisecond {
						time.Sleep(time.Millisecond)
					}
					m := []int{1, 2, 3, 5}[rr.IntN(4)]
					c2 := cfg
					c2.Max = m
					rec.do(t, input{Op: "setmax", Max: m}, func() output { writeGroup(name, c2); return output{} })
					lastWrite = time.Now()
					run.Count("max_clients_edited_on_disk", 1)
				}
				if cfg.Faulty && t == 0 && rr.IntN(3) == 0 {
					if !broken {
						rec.do(t, input{Op: "break"}, func() output {
							f := filepath.Join(group.Directory, name+".json")
							os.WriteFile(f+".tmp-harness", []byte("{\"users\": {\"op1\": "), 0o644)
							os.Rename(f+".tmp-harness", f)
							return output{}
						})
						run.Count("description_made_unreadable", 1)
					} else {
						rec.do(t, input{Op: "repair"}, func() output { writeGroup(name, cfg); return output{} })
					}
					broken = !broken
				}
				switch x := rr.IntN(100); {
				case x < 45: // join
					isOp := rr.IntN(3) == 0
					kind := "nop"
					if isOp {
						kind = "op"
					}
					id := fmt.Sprintf("%s-%s-%d-%d", name, kind, t, k)
					if rr.IntN(12) == 0 && len(mine) > 0 {
						id = mine[0].id // duplicate id
						isOp = strings.Contains(id, "-op-")
					}
					c := &fakeClient{id: id}
					c.onPush = func(kind, pid string) {
						if kind == "add" {
							addsSeen.Store(pid, true)
						}
					}
					c.onKick = func(c *fakeClient) {
						// autokick: the kicked client leaves asynchronously; that is a
						// recorded operation of its own
						kickWG.Add(1)
						go func() {
							defer kickWG.Done()
							if c.Group() == nil {
								return
							}
							rec.do(100+t, input{Op: "leave", ID: c.id}, func() output {
								group.DelClient(c)
								c.setGroup(nil)
								return output{}
							})
						}()
					}
					user, pw := "guest", "x"
					if isOp {
						user, pw = "op1", "pw-op1"
					}
					var joinedC *fakeClient
					out := rec.do(t, input{Op: "join", ID: id, IsOp: isOp}, func() output {
						g, err := group.AddClient(name, c, group.ClientCredentials{Username: strp(user), Password: pw})
						if err != nil {
							var se *json.SyntaxError
							return output{OK: false, Err: err.Error(), Unreadable: errors.Is(err, io.ErrUnexpectedEOF) || errors.As(err, &se)}
						}
						c.setGroup(g)
						joinedC = c
						return output{OK: true}
					})
					if out.OK && !isOp && cfg.Autolock && !joinedC.toldAnOperator() {
						// while no operator is present an autolock group is locked (it starts locked,
						// is locked again together with the removal of its last operator, and only a
						// present operator can unlock it): a non-operator can only be admitted while
						// an operator is a member, and AddClient tells it about every member
						opless.Store(true)
					}
					if out.OK {
						mine = append(mine, joinedC)
					} else if id == c.id && !containsClient(mine, id) {
						rejected.Store(id, true)
					}
				case x < 65: // leave
					if len(mine) == 0 {
						continue
					}
					j := rr.IntN(len(mine))
					c := mine[j]
					mine = append(mine[:j], mine[j+1:]...)
					if c.Group() == nil {
						continue // already removed by an autokick
					}
					rec.do(t, input{Op: "leave", ID: c.id}, func() output {
						group.DelClient(c)
						c.setGroup(nil)
						return output{}
					})
				case x < 73:
					// lock changes are made by operators that are members (the protocol requires
					// 'op'): only a thread that currently holds a joined operator issues them
					holdsOp := false
					for _, c := range mine {
						if strings.Contains(c.id, "-op-") && c.Group() != nil {
							holdsOp = true
						}
					}
					if !holdsOp {
						continue
					}
					lock := rr.IntN(2) == 0
					op := "unlock"
					if lock {
						op = "lock"
					}
					if g := group.Get(name); g != nil {
						rec.do(t, input{Op: op}, func() output { g.SetLocked(lock, ""); return output{} })
					}
				// queries look the group up INSIDE the recorded interval: a *Group obtained earlier
				// may by now be an unloaded object that shows what the group was, not what it is
				case x < 83:
					rec.do(t, input{Op: "locked?"}, func() output {
						g := group.Get(name)
						if g == nil {
							return output{Absent: true}
						}
						l, _ := g.Locked()
						return output{Locked: l}
					})
				case x < 92:
					rec.do(t, input{Op: "count?"}, func() output {
						g := group.Get(name)
						if g == nil {
							return output{Absent: true}
						}
						return output{Count: g.ClientCount()}
					})
				default:
					rec.do(t, input{Op: "members?"}, func() output {
						g := group.Get(name)
						if g == nil {
							return output{Absent: true}
						}
						var ids []string
						for _, c := range g.GetClients(nil) {
							ids = append(ids, c.Id())
						}
						return output{Members: membersString(ids)}
					})
				}
			}
		}(t)
	}
	wg.Wait()
	// let asynchronous kicks finish (they are goroutines started by galene's autoLockKick)
	time.Sleep(2 * time.Millisecond)
	kickWG.Wait()
	close(stopSampler)
	samplerWG.Wait()
	run.Eval(int64(len(rec.ops)))
	replay := map[string]any{"history_index": idx, "config": cfg}
	res, info := porcupine.CheckOperationsVerbose(model(cfg), rec.ops, 30*time.Second)
	switch res {
	case porcupine.Illegal:
		var hist []string
		ops := append([]porcupine.Operation(nil), rec.ops...)
		sort.Slice(ops, func(i, j int) bool { return ops[i].Call < ops[j].Call })
		for _, o := range ops {
			hist = append(hist, fmt.Sprintf("[%d,%d] thread %d: %+v -> %+v", o.Call, o.Return, o.ClientId, o.Input, o.Output))
		}
		replay["history"] = hist
		_ = info
		key := "not-linearizable"
		kind := classify(cfg, ops)
		run.Violation(key+":"+kind, fmt.Sprintf("the recorded history of %d operations by %d threads on a group with %+v has no legal sequential order under the admission rules", len(ops), threads, cfg), replay)
	case porcupine.Unknown:
		run.Count("checker_timeouts", 1)
	default:
		run.Count("histories_linearizable", 1)
	}
	if opless.Load() {
		run.Violation("non-operator-admitted-to-operatorless-autolock-group", "a non-operator was admitted to an autolock group at a moment when no operator was a member (it was told about no operator when it joined)", replay)
	}
	if n := nonOpOverCap.Load(); n > 0 {
		run.Violation("non-operators-exceed-max-clients", fmt.Sprintf("%d non-operator members were seen in a group with max-clients %d", n, cfg.Max), replay)
	}
	rejected.Range(func(k, _ any) bool {
		if _, told := addsSeen.Load(k); told {
			run.Violation("rejected-client-announced", fmt.Sprintf("client %v was refused, yet a member was told it had joined", k), replay)
		}
		return true
	})
	joins, fails := 0, 0
	for _, o := range rec.ops {
		if o.Input.(input).Op == "join" {
			if o.Output.(output).OK {
				joins++
			} else {
				fails++
			}
		}
	}
	run.Count("joins_admitted", int64(joins))
	run.Count("joins_refused", int64(fails))
	if joins > 0 && fails > 0 {
		run.Distinct(fmt.Sprintf("max%d al%v ak%v w%d t%d j%d f%d", cfg.Max, cfg.Autolock, cfg.Autokick, cfg.Window, threads, min(joins, 6), min(fails, 6)))
	}
	if idx < 2 {
		var hist []string
		for _, o := range rec.ops[:min(len(rec.ops), 14)] {
			hist = append(hist, fmt.Sprintf("[%d,%d] t%d %+v -> %+v", o.Call, o.Return, o.ClientId, o.Input, o.Output))
		}
		run.Sample(map[string]any{"history_index": idx, "config": cfg, "threads": threads, "operations": hist})
	}
	// clean up the group's members so that the registry does not grow
	if g := group.Get(name); g != nil {
		for _, c := range g.GetClients(nil) {
			group.DelClient(c)
		}
	}
	os.Remove(filepath.Join(group.Directory, name+".json"))
}

// registry clause: AddClient looks the group up (group.Add) and only then takes the
// group's lock; group.Update() expires empty groups that have been idle for longer than
// max-history-age.  An expiry between the two steps must not leave a member in a Group
// object that is no longer registered.  Oracle at quiescence: every client whose join was
// acknowledged and that has not left is a member of group.Get(name), and no id is a member
// of two objects of one name.
func registryPhase(run *vk.Run, round uint64, n int) {
	cfg := config{}
	var names []string
	for i := 0; i < n; i++ {
		name := fmt.Sprintf("reg%d-%d", round, i)
		names = append(names, name)
		d := map[string]any{"max-history-age": 1, "wildcard-user": map[string]any{"password": map[string]any{"type": "wildcard"}, "permissions": "present"}}
		(&vsrv.Server{GroupsDir: group.Directory}).WriteGroup(name, d)
	}
	_ = cfg
	if round == 0 {
		// self-test of the phase: an Update with nobody joining expires an idle group
		probe := names[0]
		group.Add(probe, nil)
		time.Sleep(1150 * time.Millisecond)
		group.Update()
		if group.Get(probe) == nil {
			run.Count("registry_expiry_selftest_ok", 1)
		} else {
			run.Count("registry_expiry_selftest_failed", 1)
		}
	}
	// the groups are registered 2 ms apart (registered, empty, timestamp = now): each
	// becomes expirable one second after ITS registration, and its joiner arrives around that
	// very moment, while the sweeps run all the time
	created := make([]time.Time, n)
	for i, name := range names {
		group.Add(name, nil)
		created[i] = time.Now()
		time.Sleep(2 * time.Millisecond)
	}
	var stop atomic.Bool
	var uwg sync.WaitGroup
	startUpdaters := func() {
		for u := 0; u < 3; u++ {
			uwg.Add(1)
			go func() {
				defer uwg.Done()
				// the expiry sweeps run at full speed while the joiners are held, for up to
				// 3 ms, in front of each of their lock operations (among them the one between
				// the registry lookup and the insertion)
				vsync.SetQuiet(true)
				defer vsync.SetQuiet(false)
				for !stop.Load() {
					group.Update()
				}
			}()
		}
	}
	type joined struct {
		c    *fakeClient
		g    *group.Group
		name string
	}
	var mu sync.Mutex
	var js []joined
	var wg sync.WaitGroup
	startUpdaters()
	for i, name := range names {
		wg.Add(1)
		go func(i int, name string) {
			defer wg.Done()
			r := run.Rand(3, round, uint64(i))
			time.Sleep(time.Until(created[i].Add(time.Second + time.Duration(r.IntN(12000))*time.Microsecond)))
			c := &fakeClient{id: fmt.Sprintf("%s-c", name)}
			before := group.Get(name)
			if before == nil {
				run.Count("registry_groups_already_expired_at_join", 1)
			} else {
				run.Count("registry_groups_still_registered_at_join", 1)
			}
			g, err := group.AddClient(name, c, group.ClientCredentials{Username: strp("u"), Password: "x"})
			if err == nil && before != nil && g != before {
				// the group object found a moment ago was expired while this join was under way
				run.Count("registry_joins_overtaken_by_an_expiry", 1)
			}
			if err != nil {
				run.Count("registry_join_errors", 1)
			}
			if err == nil {
				c.setGroup(g)
				mu.Lock()
				js = append(js, joined{c, g, name})
				mu.Unlock()
			}
		}(i, name)
	}
	wg.Wait()
	stop.Store(true)
	uwg.Wait()
	run.Eval(int64(len(names)))
	for _, j := range js {
		reg := group.Get(j.name)
		found := false
		if reg != nil {
			for _, c := range reg.GetClients(nil) {
				if c.Id() == j.c.id {
					found = true
				}
			}
		}
		if !found {
			state := "the name is not registered at all"
			if reg != nil && reg != j.g {
				state = "the registered object is a different one"
			}
			run.Violation("member-of-unregistered-group", fmt.Sprintf("the join of %s to %s was acknowledged, yet it is not a member of the registered group: %s (the group expired between the lookup and the insertion)", j.c.id, j.name, state), map[string]any{"registry_round": round})
		} else {
			run.Count("registry_joins_found_in_registered_group", 1)
		}
		group.DelClient(j.c)
	}
	for _, name := range names {
		os.Remove(filepath.Join(group.Directory, name+".json"))
	}
	run.Count("registry_rounds", 1)
}

// observeThenJoin is a directed family for the autolock clause "locked again as soon as
// its last operator leaves, before any later join is evaluated": an operator leaves an
// unlocked autolock group while an unperturbed observer polls the member list and, the
// moment it has SEEN the operator gone, joins as a non-operator.  The read is part of the
// history, so that join is a "later join" and has no legal linearisation if it is admitted.
func observeThenJoin(run *vk.Run, idx uint64) {
	cfg := config{Autolock: true}
	name := fmt.Sprintf("otj%d-%d", idx, groupSeq.Add(1))
	writeGroup(name, cfg)
	rec := &recorder{}
	op := &fakeClient{id: name + "-op-0"}
	g, err := group.AddClient(name, op, group.ClientCredentials{Username: strp("op1"), Password: "pw-op1"})
	if err != nil {
		run.Inconclusive("observe-then-join: operator could not join: " + err.Error())
		return
	}
	op.setGroup(g)
	g.SetLocked(false, "")
	// the history starts here: state = {op}, unlocked
	rec.do(0, input{Op: "join", ID: op.id, IsOp: true}, func() output { return output{OK: true} })
	rec.do(0, input{Op: "unlock"}, func() output { return output{} })
	var wg sync.WaitGroup
	var opless atomic.Bool
	var leaveDone atomic.Bool
	wg.Add(2)
	go func() {
		defer wg.Done()
		time.Sleep(time.Duration(idx%7) * 100 * time.Microsecond)
		rec.do(1, input{Op: "leave", ID: op.id}, func() output {
			group.DelClient(op)
			op.setGroup(nil)
			return output{}
		})
		leaveDone.Store(true)
	}()
	for j := 0; j < 2; j++ {
		wg.Add(1)
		go func(j int) {
			defer wg.Done()
			for k := 0; k < 60; k++ {
				after := leaveDone.Load()
				c := &fakeClient{id: fmt.Sprintf("%s-nop-%d-%d", name, j, k)}
				out := rec.do(2+j, input{Op: "join", ID: c.id}, func() output {
					gg, err := group.AddClient(name, c, group.ClientCredentials{Username: strp("guest"), Password: "x"})
					if err != nil {
						return output{OK: false, Err: err.Error()}
					}
					c.setGroup(gg)
					return output{OK: true}
				})
				if out.OK {
					if !c.toldAnOperator() {
						opless.Store(true)
					}
					rec.do(2+j, input{Op: "leave", ID: c.id}, func() output {
						group.DelClient(c)
						c.setGroup(nil)
						return output{}
					})
				}
				if after {
					return
				}
			}
		}(j)
	}
	go func() {
		defer wg.Done()
		vsync.SetQuiet(true)
		defer vsync.SetQuiet(false)
		for k := 0; k < 200000 && !leaveDone.Load(); k++ {
			var ids []string
			rec.do(9, input{Op: "members?"}, func() output {
				for _, c := range g.GetClients(nil) {
					ids = append(ids, c.Id())
				}
				return output{Members: membersString(ids)}
			})
		}
	}()
	wg.Wait()
	if opless.Load() {
		run.Violation("non-operator-admitted-to-operatorless-autolock-group", "while the last operator of an autolock group was leaving, a non-operator was admitted at a moment when no operator was a member (it was told about no operator when it joined): the group was not locked again before that join was evaluated", map[string]any{"observe_then_join_index": idx})
	}
	// thin out the reads: thousands of identical reads add nothing
	ops := rec.ops
	if len(ops) > 60 {
		var keep []porcupine.Operation
		reads := 0
		for _, o := range ops {
			if o.Input.(input).Op == "members?" {
				reads++
				if reads%((len(ops)/30)+1) != 0 {
					continue
				}
			}
			keep = append(keep, o)
		}
		ops = keep
	}
	run.Eval(int64(len(ops)))
	res, _ := porcupine.CheckOperationsVerbose(model(cfg), ops, 30*time.Second)
	if res == porcupine.Illegal {
		var hist []string
		sort.Slice(ops, func(i, j int) bool { return ops[i].Call < ops[j].Call })
		for _, o := range ops {
			hist = append(hist, fmt.Sprintf("[%d,%d] thread %d: %+v -> %+v", o.Call, o.Return, o.ClientId, o.Input, o.Output))
		}
		run.Violation("not-linearizable:autolock:join-after-operator-seen-gone", "a non-operator that had SEEN the last operator gone from an autolock group was admitted: the group was not locked again before the later join was evaluated", map[string]any{"observe_then_join_index": idx, "history": hist})
	} else if res == porcupine.Ok {
		run.Count("observe_then_join_histories_linearizable", 1)
	}
	if gg := group.Get(name); gg != nil {
		for _, c := range gg.GetClients(nil) {
			group.DelClient(c)
		}
	}
	os.Remove(filepath.Join(group.Directory, name+".json"))
}

func containsClient(cs []*fakeClient, id string) bool {
	for _, c := range cs {
		if c.id == id {
			return true
		}
	}
	return false
}

// classify names the rule a non-linearizable history most plausibly breaks (for the key).
func classify(cfg config, ops []porcupine.Operation) string {
	switch {
	case cfg.Faulty:
		return "unreadable-description"
	case cfg.Reload:
		return "max-clients-edited"
	case cfg.Autolock:
		return "autolock"
	case cfg.Autokick:
		return "autokick"
	case cfg.Max > 0:
		return "capacity"
	case cfg.Window >= 2:
		return "window"
	}
	return "lock-or-duplicate"
}

func main() {
	vk.RaceGuard("C10", []string{"/group/"})
	run := vk.Start("C10")
	root := filepath.Join(run.Scratch, "c10")
	group.Directory = filepath.Join(root, "groups")
	group.DataDirectory = filepath.Join(root, "data")
	os.MkdirAll(group.Directory, 0o755)
	os.MkdirAll(group.DataDirectory, 0o755)
	n := run.Pick(1200, 40000)
	light := os.Getenv("VERIF_LIGHT") == "1"
	if light {
		// the pass with the light vsync variant (race hunting): a third of the histories,
		// the whole registry phase
		n /= 3
	}
	first := uint64(0)
	if rep, ok := vk.ReplayInput(); ok {
		m, _ := rep["replay"].(map[string]any)
		if v, ok := m["history_index"].(float64); ok {
			first, n = uint64(v), 1
		}
	}
	var next atomic.Uint64
	next.Store(first)
	var wg sync.WaitGroup
	for w := 0; w < 4; w++ {
		wg.Add(1)
		go func(w int) {
			defer wg.Done()
			for {
				i := next.Add(1) - 1
				if i >= first+uint64(n) {
					return
				}
				// schedule perturbation differs per history: 0, 30, 60, 90 %
				vsync.SetPerturb([]int{0, 30, 60, 90}[i%4])
				reps := 1
				if n == 1 {
					reps = 200 // replay: schedule-dependent, re-run the case
				}
				for k := 0; k < reps; k++ {
					runHistory(run, i)
				}
			}
		}(w)
	}
	vsync.Enable(30, uint64(run.Seed), true)
	wg.Wait()
	if n > 1 {
		vsync.SetPerturb(90)
		var owg sync.WaitGroup
		var onext atomic.Uint64
		total := uint64(run.Pick(1500, 40000))
		if light {
			total /= 3
		}
		for w := 0; w < 4; w++ {
			owg.Add(1)
			go func() {
				defer owg.Done()
				for {
					i := onext.Add(1) - 1
					if i >= total {
						return
					}
					observeThenJoin(run, i)
				}
			}()
		}
		owg.Wait()
		run.FloorCounter("observe_then_join_histories_linearizable", int64(total*9/10))
		vsync.SetPerturb(60)
		vsync.SetMaxSleep(3000)
		for round := 0; round < run.Pick(3, 40); round++ {
			registryPhase(run, uint64(round), 160)
		}
		vsync.SetMaxSleep(200)
		run.FloorCounter("registry_joins_found_in_registered_group", 50)
	}
	ev, edges, _ := vsync.Stats()
	run.Count("lock_events", ev)
	run.Set("lock_order_edges", edges)
	run.FloorCounter("histories_linearizable", int64(n*9/10))
	run.FloorCounter("joins_admitted", 100)
	run.FloorCounter("joins_refused", 100)
	run.Assume("time window configurations are 400 days away from now; a porcupine timeout (30 s) is inconclusive for that history and counted")
	run.Assume("autokick removals are performed by the fake clients when galene kicks them and are recorded as operations of their own")
	run.Finish("exploration", "short histories (<= 8 threads x 8 operations) of join (operator / non-operator / duplicate id), leave, lock, unlock and reads on one group per history, configurations from max-clients {0,1,2,3,5} x autolock x autokick x time window {none, open, not yet open, closed}, on the mutex-instrumented copy with 0/30/60/90 % perturbation at every lock operation, under -race; each history checked by porcupine against the admission model; distinct_nontrivial = distinct (configuration, threads, admitted, refused) shapes with both an admitted and a refused join")
}
