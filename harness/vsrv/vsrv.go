// Package vsrv boots a real galene server inside the current (child) process: real
// webserver, group, rtpconn, token and diskwriter packages, listening on a unix socket
// inside the scratch directory.  One server per process (webserver.Serve registers its
// handlers on http.DefaultServeMux).
package vsrv

import (
	"context"
	"encoding/json"
	"fmt"
	"io"
	"log"
	"net"
	"net/http"
	"os"
	"path/filepath"
	"strings"
	"time"

	"github.com/gorilla/websocket"

	"github.com/jech/galene/diskwriter"
	"github.com/jech/galene/group"
	"github.com/jech/galene/ice"
	"github.com/jech/galene/token"
	"github.com/jech/galene/turnserver"
	"github.com/jech/galene/webserver"
)

type Server struct {
	Root       string
	Sock       string
	GroupsDir  string
	DataDir    string
	RecDir     string
	StaticDir  string
	TokenFile  string
	AdminUser  string
	AdminPass  string
	LogFile    string
	httpClient *http.Client
}

type Config struct {
	Root           string // directory to create everything in
	StaticDir      string // "" => a minimal static tree is created
	AdminUser      string
	AdminPass      string
	WritableGroups bool
	CanonicalHost  string
	ExtraConfig    map[string]any
	LogToFile      bool
}

// Start configures the global state of galene's packages and starts serving.
func Start(cfg Config) (*Server, error) {
	s := &Server{Root: cfg.Root, AdminUser: cfg.AdminUser, AdminPass: cfg.AdminPass}
	if s.AdminUser == "" {
		s.AdminUser = "root"
	}
	if s.AdminPass == "" {
		s.AdminPass = "SENTINEL-admin-password-7f3a"
	}
	s.GroupsDir = filepath.Join(cfg.Root, "groups")
	s.DataDir = filepath.Join(cfg.Root, "data")
	s.RecDir = filepath.Join(cfg.Root, "recordings")
	s.StaticDir = cfg.StaticDir
	for _, d := range []string{s.GroupsDir, s.DataDir, s.RecDir, filepath.Join(s.DataDir, "var")} {
		if err := os.MkdirAll(d, 0o755); err != nil {
			return nil, err
		}
	}
	if s.StaticDir == "" {
		s.StaticDir = filepath.Join(cfg.Root, "static")
		os.MkdirAll(s.StaticDir, 0o755)
		os.WriteFile(filepath.Join(s.StaticDir, "index.html"), []byte("<html>STATIC-INDEX</html>\n"), 0o644)
		os.WriteFile(filepath.Join(s.StaticDir, "galene.html"), []byte("<html>STATIC-GALENE</html>\n"), 0o644)
		os.WriteFile(filepath.Join(s.StaticDir, "404.html"), []byte("<html>STATIC-404</html>\n"), 0o644)
	}
	conf := map[string]any{
		"users": map[string]any{
			s.AdminUser: map[string]any{"password": s.AdminPass, "permissions": "admin"},
		},
	}
	if cfg.WritableGroups {
		conf["writableGroups"] = true
	}
	if cfg.CanonicalHost != "" {
		conf["canonicalHost"] = cfg.CanonicalHost
	}
	for k, v := range cfg.ExtraConfig {
		conf[k] = v
	}
	if err := writeJSON(filepath.Join(s.DataDir, "config.json"), conf); err != nil {
		return nil, err
	}
	if cfg.LogToFile {
		s.LogFile = filepath.Join(cfg.Root, "server.log")
		f, err := os.OpenFile(s.LogFile, os.O_CREATE|os.O_WRONLY|os.O_APPEND, 0o644)
		if err == nil {
			log.SetOutput(f)
		}
	}
	group.Directory = s.GroupsDir
	group.DataDirectory = s.DataDir
	diskwriter.Directory = s.RecDir
	webserver.StaticRoot = s.StaticDir
	webserver.Insecure = true
	turnserver.Address = ""
	ice.ICEFilename = filepath.Join(s.DataDir, "ice-servers.json")
	s.TokenFile = filepath.Join(s.DataDir, "var", "tokens.jsonl")
	token.SetStatefulFilename(s.TokenFile)
	ice.Update()
	// unix socket paths are limited to ~107 bytes: keep it short
	s.Sock = filepath.Join(cfg.Root, "s")
	if len(s.Sock) > 100 {
		d, err := os.MkdirTemp("", "vs")
		if err != nil {
			return nil, err
		}
		s.Sock = filepath.Join(d, "s")
	}
	os.Remove(s.Sock)
	if err := webserver.Serve(s.Sock, s.DataDir); err != nil {
		return nil, err
	}
	s.httpClient = &http.Client{
		Transport: &http.Transport{
			DialContext: func(ctx context.Context, _, _ string) (net.Conn, error) {
				var d net.Dialer
				return d.DialContext(ctx, "unix", s.Sock)
			},
			MaxIdleConnsPerHost: 64,
		},
		CheckRedirect: func(*http.Request, []*http.Request) error { return http.ErrUseLastResponse },
		Timeout:       30 * time.Second,
	}
	// wait for the listener
	for i := 0; i < 200; i++ {
		c, err := net.Dial("unix", s.Sock)
		if err == nil {
			c.Close()
			return s, nil
		}
		time.Sleep(5 * time.Millisecond)
	}
	return nil, fmt.Errorf("server did not start listening on %s", s.Sock)
}

func writeJSON(path string, v any) error {
	b, err := json.MarshalIndent(v, "", " ")
	if err != nil {
		return err
	}
	os.MkdirAll(filepath.Dir(path), 0o755)
	tmp := path + ".tmp-harness"
	if err := os.WriteFile(tmp, append(b, '\n'), 0o644); err != nil {
		return err
	}
	return os.Rename(tmp, path)
}

// WriteGroup writes (atomically) a group definition file.
func (s *Server) WriteGroup(name string, desc map[string]any) error {
	return writeJSON(filepath.Join(s.GroupsDir, filepath.FromSlash(name)+".json"), desc)
}

func (s *Server) GroupFile(name string) string {
	return filepath.Join(s.GroupsDir, filepath.FromSlash(name)+".json")
}

// HTTP returns a client whose connections go to the server's unix socket.
func (s *Server) HTTP() *http.Client { return s.httpClient }

// URL builds a URL for the server (host is only used for the Host header).
func (s *Server) URL(path string) string { return "http://galene.test" + path }

// Do performs a request and returns status, headers and body.
func (s *Server) Do(method, path string, hdr map[string]string, body []byte) (int, http.Header, []byte, error) {
	var rd io.Reader
	if body != nil {
		rd = strings.NewReader(string(body))
	}
	req, err := http.NewRequest(method, s.URL(path), rd)
	if err != nil {
		return 0, nil, nil, err
	}
	for k, v := range hdr {
		req.Header.Set(k, v)
	}
	resp, err := s.httpClient.Do(req)
	if err != nil {
		return 0, nil, nil, err
	}
	defer resp.Body.Close()
	b, _ := io.ReadAll(resp.Body)
	return resp.StatusCode, resp.Header, b, nil
}

// Basic returns an Authorization header value.
func Basic(user, pass string) map[string]string {
	r, _ := http.NewRequest("GET", "http://x/", nil)
	r.SetBasicAuth(user, pass)
	return map[string]string{"Authorization": r.Header.Get("Authorization")}
}

func (s *Server) AdminAuth() map[string]string { return Basic(s.AdminUser, s.AdminPass) }

// DialWS opens a websocket to /ws over the unix socket.
func (s *Server) DialWS() (*websocket.Conn, error) {
	d := websocket.Dialer{
		NetDialContext: func(ctx context.Context, _, _ string) (net.Conn, error) {
			var nd net.Dialer
			return nd.DialContext(ctx, "unix", s.Sock)
		},
		HandshakeTimeout: 20 * time.Second,
	}
	c, _, err := d.Dial("ws://galene.test/ws", nil)
	return c, err
}

// RawConn opens a raw connection to the server socket (for hand-written HTTP requests).
func (s *Server) RawConn() (net.Conn, error) {
	return net.DialTimeout("unix", s.Sock, 10*time.Second)
}
