//go:build !race

package vk

const RaceEnabled = false
