//go:build race

package vk

const RaceEnabled = true
