package vk

import (
	"bufio"
	"encoding/json"
	"fmt"
	"os"
	"os/exec"
	"path/filepath"
	"regexp"
	"strings"
	"sync"
	"syscall"
	"time"
)

// Child processes: the system under test runs in a child (one panic in galene's
// unprotected client goroutines kills the whole process).  In the child every Run
// method appends a JSON line to VERIF_CHILD_OUT instead of accumulating; the parent
// merges the lines into its own Run and classifies how the child ended.

type childLine struct {
	T      string `json:"t"` // eval, distinct, sample, count, max, set, viol, inc, assume, note
	K      string `json:"k,omitempty"`
	N      int64  `json:"n,omitempty"`
	S      string `json:"s,omitempty"`
	V      any    `json:"v,omitempty"`
	Replay any    `json:"replay,omitempty"`
}

var childOut struct {
	mu sync.Mutex
	f  *os.File
}

// InChild reports whether this process is a child started by RunChild, and its mode.
func InChild() (string, bool) {
	m := os.Getenv("VERIF_CHILD")
	return m, m != ""
}

// ChildArgs decodes the JSON arguments the parent passed.
func ChildArgs(v any) error {
	return json.Unmarshal([]byte(os.Getenv("VERIF_CHILD_ARGS")), v)
}

func childEmit(l childLine) bool {
	p := os.Getenv("VERIF_CHILD_OUT")
	if p == "" {
		return false
	}
	childOut.mu.Lock()
	defer childOut.mu.Unlock()
	if childOut.f == nil {
		f, err := os.OpenFile(p, os.O_CREATE|os.O_WRONLY|os.O_APPEND, 0o644)
		if err != nil {
			return false
		}
		childOut.f = f
	}
	b, err := json.Marshal(l)
	if err != nil {
		b, _ = json.Marshal(childLine{T: l.T, K: l.K, N: l.N, S: l.S + " (unmarshalable payload)"})
	}
	childOut.f.Write(append(b, '\n'))
	return true
}

// Note logs a free-form line (e.g. the command about to be sent) to the child's output.
func (r *Run) Note(s string) {
	childEmit(childLine{T: "note", S: s})
}

// ChildResult describes how a child ended.
type ChildResult struct {
	ExitCode  int
	TimedOut  bool
	Crash     string // "" or crash signature (panic/fatal message class @ first galene frame)
	CrashText string // excerpt of stderr around the crash
	Races     []RaceReport
	Deadlock  string
	OutFile   string
	ErrFile   string
	Notes     []string // last notes the child logged (commands issued before a crash)
	Wall      time.Duration
}

var hexAddr = regexp.MustCompile(`0x[0-9a-f]+`)
var digits = regexp.MustCompile(`\d+`)

// CrashSignature extracts "message class @ first galene frame" from a Go crash dump.
func CrashSignature(stderr string) (string, string) {
	idx := -1
	for _, marker := range []string{"\npanic: ", "\nfatal error: ", "panic: ", "fatal error: "} {
		if i := strings.Index(stderr, marker); i >= 0 {
			idx = i + len(marker) - len(strings.TrimLeft(marker, "\n"))
			if strings.HasPrefix(marker, "\n") {
				idx = i + 1
			} else {
				idx = i
			}
			break
		}
	}
	if idx < 0 {
		return "", ""
	}
	rest := stderr[idx:]
	line := rest
	if i := strings.Index(line, "\n"); i >= 0 {
		line = line[:i]
	}
	msg := hexAddr.ReplaceAllString(line, "0x?")
	msg = digits.ReplaceAllString(msg, "N")
	if len(msg) > 120 {
		msg = msg[:120]
	}
	frame := ""
	sc := bufio.NewScanner(strings.NewReader(rest))
	sc.Buffer(make([]byte, 1<<20), 1<<20)
	for sc.Scan() {
		l := sc.Text()
		if strings.Contains(l, "jech/galene/") && !strings.HasPrefix(l, "\t") && strings.Contains(l, "(") {
			f := l
			if i := strings.LastIndex(f, "("); i > 0 {
				f = f[:i]
			}
			if i := strings.LastIndex(f, "jech/galene/"); i >= 0 {
				f = f[i+len("jech/galene/"):]
			}
			frame = f
			break
		}
	}
	excerpt := rest
	if len(excerpt) > 3000 {
		excerpt = excerpt[:3000]
	}
	if frame == "" {
		return "harness-crash:" + msg, excerpt
	}
	return "crash:" + msg + "@" + frame, excerpt
}

// RunChild re-executes this binary as a child in the given mode and merges what it
// reported into r.  The child gets GORACE logging (if race-instrumented), a watchdog,
// and stdout/stderr redirected to files in the scratch dir.
func (r *Run) RunChild(mode string, args any, timeout time.Duration, extraEnv ...string) ChildResult {
	r.mu.Lock()
	r.childN++
	n := r.childN
	r.mu.Unlock()
	base := filepath.Join(r.Scratch, fmt.Sprintf("child-%s-%d", mode, n))
	res := ChildResult{OutFile: base + ".out", ErrFile: base + ".err"}
	ab, _ := json.Marshal(args)
	bin := os.Args[0]
	for _, e := range extraEnv {
		// "VERIF_CHILD_BIN=<path>" runs the child from another binary of the same command
		// (the light vsync variant built by ./check for instrumented checks)
		if strings.HasPrefix(e, "VERIF_CHILD_BIN=") && len(e) > len("VERIF_CHILD_BIN=") {
			bin = e[len("VERIF_CHILD_BIN="):]
		}
	}
	cmd := exec.Command(bin)
	cmd.Env = append(os.Environ(), "VERIF_CHILD="+mode, "VERIF_CHILD_ARGS="+string(ab), "VERIF_CHILD_OUT="+res.OutFile, "VERIF_RACE_CHILD=1",
		"VERIF_CHILD_DIR="+base+".d")
	racePrefix := base + ".race"
	if RaceEnabled {
		cmd.Env = append(cmd.Env, RaceEnv(racePrefix)...)
	}
	cmd.Env = append(cmd.Env, extraEnv...)
	os.MkdirAll(base+".d", 0o755)
	ef, _ := os.Create(res.ErrFile)
	cmd.Stdout = ef
	cmd.Stderr = ef
	cmd.SysProcAttr = &syscall.SysProcAttr{Setpgid: true}
	start := time.Now()
	if err := cmd.Start(); err != nil {
		r.Inconclusive("cannot start child: " + err.Error())
		return res
	}
	done := make(chan error, 1)
	go func() { done <- cmd.Wait() }()
	var err error
	select {
	case err = <-done:
	case <-time.After(timeout):
		res.TimedOut = true
		syscall.Kill(-cmd.Process.Pid, syscall.SIGQUIT) // goroutine dump goes to the err file
		select {
		case err = <-done:
		case <-time.After(10 * time.Second):
			syscall.Kill(-cmd.Process.Pid, syscall.SIGKILL)
			err = <-done
		}
	}
	ef.Close()
	res.Wall = time.Since(start)
	if err != nil {
		if ee, ok := err.(*exec.ExitError); ok {
			res.ExitCode = ee.ExitCode()
		} else {
			res.ExitCode = -1
		}
	}
	// merge the child's report
	if f, e := os.Open(res.OutFile); e == nil {
		sc := bufio.NewScanner(f)
		sc.Buffer(make([]byte, 1<<22), 1<<24)
		for sc.Scan() {
			var l childLine
			if json.Unmarshal(sc.Bytes(), &l) != nil {
				continue
			}
			switch l.T {
			case "eval":
				r.Eval(l.N)
			case "distinct":
				r.Distinct(l.S)
			case "sample":
				r.Sample(l.V)
			case "count":
				r.Count(l.K, l.N)
			case "max":
				r.Max(l.K, l.N)
			case "set":
				r.Set(l.K, l.V)
			case "viol":
				r.Violation(l.K, l.S, l.Replay)
			case "inc":
				r.Inconclusive(l.S)
			case "und":
				r.Undecided(l.S)
			case "assume":
				r.Assume(l.S)
			case "note":
				res.Notes = append(res.Notes, l.S)
				if len(res.Notes) > 60 {
					res.Notes = res.Notes[len(res.Notes)-40:]
				}
			}
		}
		f.Close()
	}
	if eb, e := os.ReadFile(res.ErrFile); e == nil {
		text := string(eb)
		if !res.TimedOut {
			res.Crash, res.CrashText = CrashSignature(text)
		}
		if i := strings.Index(text, "VSYNC-DEADLOCK"); i >= 0 {
			d := text[i:]
			if len(d) > 6000 {
				d = d[:6000]
			}
			res.Deadlock = d
		}
	}
	if RaceEnabled {
		res.Races = ReadRaceLogs(racePrefix)
	}
	return res
}
