package vk

import (
	"encoding/json"
	"os"
	"path/filepath"
)

// PatchEvidence merges extra coverage keys into an evidence file already written by a
// child process and adds to its violation count.
func PatchEvidence(r *Run, extra map[string]any, addViolations int) {
	p := filepath.Join(r.VerifDir, "evidence", r.Prop+".json")
	b, err := os.ReadFile(p)
	if err != nil {
		return
	}
	var ev map[string]any
	if json.Unmarshal(b, &ev) != nil {
		return
	}
	cov, _ := ev["coverage"].(map[string]any)
	if cov == nil {
		cov = map[string]any{}
	}
	for k, v := range extra {
		cov[k] = v
	}
	ev["coverage"] = cov
	if v, ok := ev["violations"].(float64); ok {
		ev["violations"] = int(v) + addViolations
	} else {
		ev["violations"] = addViolations
	}
	out, err := json.MarshalIndent(ev, "", " ")
	if err == nil {
		os.WriteFile(p, append(out, '\n'), 0o644)
	}
}
