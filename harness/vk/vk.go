// Package vk is the shared kernel of the verification harness: environment,
// seeded randomness, evidence accounting, known-findings handling and the
// three-valued verdict (held / violation / inconclusive).
package vk

import (
	"bufio"
	"encoding/json"
	"fmt"
	"hash/fnv"
	"math/rand/v2"
	"os"
	"path/filepath"
	"sort"
	"strconv"
	"strings"
	"sync"
	"time"
)

type Finding struct {
	Property string
	Key      string
	What     string
}

type Run struct {
	Prop     string
	Tier     string
	Seed     int64
	VerifDir string
	Scratch  string
	start    time.Time

	mu           sync.Mutex
	evals        int64
	distinct     map[uint64]struct{}
	samples      []any
	counters     map[string]int64
	extra        map[string]any
	violations   int
	violKeys     map[string]int
	knownOpen    map[string]Finding
	knownSeen    map[string]bool
	inconclusive []string
	undecided    []string
	undecidedTol int
	replayN      int
	childN       int
	childSamples int
	MaxSamples   int
	MaxReplays   int
	assumptions  []string
}

// Start reads the environment prepared by ./check.
func Start(prop string) *Run {
	r := &Run{
		Prop:       prop,
		Tier:       os.Getenv("VERIF_TIER"),
		VerifDir:   os.Getenv("VERIF_DIR"),
		Scratch:    os.Getenv("VERIF_SCRATCH"),
		start:      time.Now(),
		distinct:   map[uint64]struct{}{},
		counters:   map[string]int64{},
		extra:      map[string]any{},
		violKeys:   map[string]int{},
		knownOpen:  map[string]Finding{},
		knownSeen:  map[string]bool{},
		MaxSamples: 4,
		MaxReplays: 10,
	}
	if r.Tier != "thorough" {
		r.Tier = "quick"
	}
	if r.VerifDir == "" {
		r.VerifDir = "/verif"
	}
	if r.Scratch == "" {
		d, err := os.MkdirTemp("", "vk-"+prop+"-")
		if err != nil {
			panic(err)
		}
		r.Scratch = d
	}
	r.Seed = 1
	if s := os.Getenv("VERIF_SEED"); s != "" {
		if v, err := strconv.ParseInt(s, 10, 64); err == nil {
			r.Seed = v
		}
	}
	r.loadFindings()
	return r
}

func (r *Run) Quick() bool { return r.Tier == "quick" }

// Pick returns q in the quick tier and t in the thorough tier.
func (r *Run) Pick(q, t int) int {
	if r.Quick() {
		return q
	}
	return t
}

// Rand returns a PCG stream determined by (VERIF_SEED, property, ids...).
func (r *Run) Rand(ids ...uint64) *rand.Rand {
	h := fnv.New64a()
	fmt.Fprintf(h, "%s|%d", r.Prop, r.Seed)
	for _, id := range ids {
		fmt.Fprintf(h, "|%d", id)
	}
	s := h.Sum64()
	return rand.New(rand.NewPCG(s, s^0x9E3779B97F4A7C15^uint64(r.Seed)))
}

func (r *Run) loadFindings() {
	f, err := os.Open(filepath.Join(r.VerifDir, "known_findings.txt"))
	if err != nil {
		return
	}
	defer f.Close()
	sc := bufio.NewScanner(f)
	sc.Buffer(make([]byte, 1<<20), 1<<20)
	for sc.Scan() {
		line := strings.TrimSpace(sc.Text())
		if !strings.HasPrefix(line, "open:") {
			continue // "fixed:" entries and comments suppress nothing
		}
		rest := strings.TrimSpace(strings.TrimPrefix(line, "open:"))
		fields := strings.SplitN(rest, " ", 3)
		if len(fields) < 2 {
			continue
		}
		prop := strings.TrimPrefix(fields[0], "property=")
		key := strings.TrimPrefix(fields[1], "key=")
		what := ""
		if len(fields) == 3 {
			what = fields[2]
		}
		r.knownOpen[prop+"|"+key] = Finding{prop, key, what}
	}
}

// Eval counts executed cases.
func (r *Run) Eval(n int64) {
	if childEmit(childLine{T: "eval", N: n}) {
		return
	}
	r.mu.Lock()
	r.evals += n
	r.mu.Unlock()
}

// Distinct records the abstract shape of a non-trivial case.
func (r *Run) Distinct(shape string) {
	if childEmit(childLine{T: "distinct", S: shape}) {
		return
	}
	h := fnv.New64a()
	h.Write([]byte(shape))
	k := h.Sum64()
	r.mu.Lock()
	r.distinct[k] = struct{}{}
	r.mu.Unlock()
}

func (r *Run) DistinctCount() int {
	r.mu.Lock()
	defer r.mu.Unlock()
	return len(r.distinct)
}

// Sample keeps a few literal cases for the evidence file.
func (r *Run) Sample(v any) {
	if _, ok := InChild(); ok {
		r.mu.Lock()
		r.childSamples++
		n := r.childSamples
		r.mu.Unlock()
		if n <= 2 {
			childEmit(childLine{T: "sample", V: v})
		}
		return
	}
	r.mu.Lock()
	if len(r.samples) < r.MaxSamples {
		r.samples = append(r.samples, v)
	}
	r.mu.Unlock()
}

func (r *Run) Count(key string, n int64) {
	if childEmit(childLine{T: "count", K: key, N: n}) {
		r.mu.Lock()
		r.counters[key] += n
		r.mu.Unlock()
		return
	}
	r.mu.Lock()
	r.counters[key] += n
	r.mu.Unlock()
}

func (r *Run) Max(key string, n int64) {
	if childEmit(childLine{T: "max", K: key, N: n}) {
		return
	}
	r.mu.Lock()
	if r.counters[key] < n {
		r.counters[key] = n
	}
	r.mu.Unlock()
}

func (r *Run) Counter(key string) int64 {
	r.mu.Lock()
	defer r.mu.Unlock()
	return r.counters[key]
}

func (r *Run) Set(key string, v any) {
	if childEmit(childLine{T: "set", K: key, V: v}) {
		return
	}
	r.mu.Lock()
	r.extra[key] = v
	r.mu.Unlock()
}

func (r *Run) Assume(s string) {
	if childEmit(childLine{T: "assume", S: s}) {
		return
	}
	r.mu.Lock()
	r.assumptions = append(r.assumptions, s)
	r.mu.Unlock()
}

// Violation reports an observed refutation.  key identifies the specific
// failing input class / call site / history shape; if known_findings.txt lists
// it as open it is printed as KNOWN-FINDING and does not affect the exit code.
// It returns true when the violation is new (not a known finding).
func (r *Run) Violation(key, what string, replay any) bool {
	if _, ok := InChild(); ok {
		r.mu.Lock()
		r.violKeys[key]++
		first := r.violKeys[key] == 1
		_, known := r.knownOpen[r.Prop+"|"+key]
		r.mu.Unlock()
		if first || known {
			childEmit(childLine{T: "viol", K: key, S: what, Replay: replay})
		} else {
			childEmit(childLine{T: "viol", K: key, S: what})
		}
		return !known
	}
	r.mu.Lock()
	defer r.mu.Unlock()
	if kf, ok := r.knownOpen[r.Prop+"|"+key]; ok {
		if !r.knownSeen[key] {
			r.knownSeen[key] = true
			w := kf.What
			if w == "" {
				w = what
			}
			fmt.Printf("KNOWN-FINDING: property=%s %s [key=%s]\n", r.Prop, w, key)
		}
		r.counters["known_finding_hits"]++
		return false
	}
	r.violations++
	r.violKeys[key]++
	if r.violKeys[key] > 1 || r.replayN >= r.MaxReplays {
		return true
	}
	r.replayN++
	dir := filepath.Join(r.VerifDir, "replays")
	os.MkdirAll(dir, 0o755)
	path := filepath.Join(dir, fmt.Sprintf("%s-%d-%d.json", r.Prop, r.Seed, r.replayN))
	doc := map[string]any{
		"property": r.Prop, "seed": r.Seed, "tier": r.Tier,
		"key": key, "what": what, "replay": replay,
	}
	b, err := json.MarshalIndent(doc, "", " ")
	if err != nil {
		b = []byte(fmt.Sprintf("{\"property\":%q,\"key\":%q,\"what\":%q,\"marshal_error\":%q}", r.Prop, key, what, err.Error()))
	}
	os.WriteFile(path, b, 0o644)
	fmt.Printf("VIOLATION property=%s replay=%s\n", r.Prop, path)
	fmt.Printf("  key=%s\n  %s\n", key, what)
	return true
}

func (r *Run) Violations() int {
	r.mu.Lock()
	defer r.mu.Unlock()
	return r.violations
}

// Inconclusive records a reason why this run cannot decide.
func (r *Run) Inconclusive(reason string) {
	if childEmit(childLine{T: "inc", S: reason}) {
		return
	}
	r.mu.Lock()
	r.inconclusive = append(r.inconclusive, reason)
	r.mu.Unlock()
}

// Undecided records a scenario that the harness had to abandon without a verdict (a
// watchdog fired, a connection could not be set up, the server dropped a harness client
// under load).  Nothing is claimed about such a scenario.  A few of them are tolerated
// (TolerateUndecided, default 2) as long as every non-vacuity floor is still met; more than
// that makes the whole run inconclusive.  They are listed in the evidence.
func (r *Run) Undecided(reason string) {
	if childEmit(childLine{T: "und", S: reason}) {
		return
	}
	r.mu.Lock()
	r.undecided = append(r.undecided, reason)
	r.mu.Unlock()
}

// TolerateUndecided sets how many abandoned scenarios a run may have (at least 2).
func (r *Run) TolerateUndecided(n int) {
	r.mu.Lock()
	r.undecidedTol = n
	r.mu.Unlock()
}

// Floor enforces non-vacuity: a run that observed fewer than want of something
// that the deterministic case list produces by construction is inconclusive.
func (r *Run) Floor(name string, got, want int64) {
	if got < want {
		r.Inconclusive(fmt.Sprintf("floor %s: observed %d < %d", name, got, want))
	}
}

func (r *Run) FloorCounter(name string, want int64) {
	r.Floor(name, r.Counter(name), want)
}

// Finish writes evidence/<prop>.json and exits: 0 held, 1 violation, 2 inconclusive.
func (r *Run) Finish(level, rule string) {
	if _, ok := InChild(); ok {
		os.Exit(0) // a child only reports; the parent writes the evidence
	}
	r.mu.Lock()
	cov := map[string]any{}
	for k, v := range r.counters {
		cov[k] = v
	}
	for k, v := range r.extra {
		cov[k] = v
	}
	cov["evaluations"] = r.evals
	cov["distinct_nontrivial"] = len(r.distinct)
	cov["rule"] = rule
	samples := r.samples
	if samples == nil {
		samples = []any{}
		if replayDoc != nil {
			samples = append(samples, map[string]any{"replayed": replayDoc["replay"]})
		}
	}
	cov["samples"] = samples
	var vk []string
	for k, n := range r.violKeys {
		vk = append(vk, fmt.Sprintf("%s x%d", k, n))
	}
	sort.Strings(vk)
	if len(vk) > 0 {
		cov["violation_keys"] = vk
	}
	var ks []string
	for k := range r.knownSeen {
		ks = append(ks, k)
	}
	sort.Strings(ks)
	if len(ks) > 0 {
		cov["known_findings_reproduced"] = ks
	}
	if n := len(r.undecided); n > 0 {
		cov["undecided_scenarios"] = n
		cov["undecided_reasons"] = r.undecided[:min(n, 20)]
		if n > max(r.undecidedTol, 2) {
			r.inconclusive = append(r.inconclusive, fmt.Sprintf("%d scenarios were abandoned without a verdict (tolerated: %d), e.g. %s", n, max(r.undecidedTol, 2), r.undecided[0]))
		} else {
			r.assumptions = append(r.assumptions, fmt.Sprintf("%d scenario(s) abandoned by a watchdog or a lost harness connection are not judged (tolerated: %d; all non-vacuity floors are met without them)", n, max(r.undecidedTol, 2)))
		}
	}
	if len(r.inconclusive) > 0 {
		cov["inconclusive"] = r.inconclusive
	}
	ev := map[string]any{
		"property_id": r.Prop,
		"tier":        r.Tier,
		"seed":        r.Seed,
		"level":       level,
		"coverage":    cov,
		"assumptions": append([]string{}, r.assumptions...),
		"wall_s":      time.Since(r.start).Seconds(),
		"violations":  r.violations,
	}
	viol, inc := r.violations, append([]string{}, r.inconclusive...)
	r.mu.Unlock()

	b, err := json.MarshalIndent(ev, "", " ")
	if err != nil {
		fmt.Printf("INCONCLUSIVE property=%s cannot marshal evidence: %v\n", r.Prop, err)
		os.Exit(2)
	}
	dir := filepath.Join(r.VerifDir, "evidence")
	os.MkdirAll(dir, 0o755)
	name := r.Prop + ".json"
	if replayDoc != nil {
		name = r.Prop + ".replay.json" // a replay never overwrites the evidence of a real run
	}
	light := os.Getenv("VERIF_LIGHT") == "1"
	if light {
		name = r.Prop + ".light.json" // merged into the evidence by RaceGuard
	}
	if err := os.WriteFile(filepath.Join(dir, name), append(b, '\n'), 0o644); err != nil {
		fmt.Printf("INCONCLUSIVE property=%s cannot write evidence: %v\n", r.Prop, err)
		os.Exit(2)
	}
	tag := "SUMMARY"
	if light {
		tag = "LIGHT-PASS"
	}
	fmt.Printf("%s property=%s tier=%s seed=%d evaluations=%d distinct_nontrivial=%d violations=%d known=%d wall=%.1fs\n",
		tag, r.Prop, r.Tier, r.Seed, cov["evaluations"], cov["distinct_nontrivial"], viol, len(ks), time.Since(r.start).Seconds())
	if viol > 0 {
		os.Exit(1)
	}
	if len(inc) > 0 {
		for _, s := range inc {
			fmt.Printf("INCONCLUSIVE property=%s %s\n", r.Prop, s)
		}
		os.Exit(2)
	}
	os.Exit(0)
}

// ReplayInput loads a replay file when the check was invoked with --replay.
func ReplayInput() (map[string]any, bool) {
	p := os.Getenv("VERIF_REPLAY")
	if p == "" {
		return nil, false
	}
	b, err := os.ReadFile(p)
	if err != nil {
		fmt.Printf("cannot read replay %s: %v\n", p, err)
		os.Exit(2)
	}
	var m map[string]any
	if err := json.Unmarshal(b, &m); err != nil {
		fmt.Printf("cannot parse replay %s: %v\n", p, err)
		os.Exit(2)
	}
	replayDoc = m
	return m, true
}

var replayDoc map[string]any
