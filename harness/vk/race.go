package vk

import (
	"encoding/json"
	"fmt"
	"os"
	"os/exec"
	"path/filepath"
	"regexp"
	"sort"
	"strings"
)

// RaceReport is one "WARNING: DATA RACE" block of a race-detector log.
type RaceReport struct {
	Text   string
	Stacks [][]string // function names of each stack in the block (access 1, access 2, goroutine creations...)
	Files  [][]string // file:line of each frame, parallel to Stacks
}

var frameFn = regexp.MustCompile(`^  ([^\s].*)\(.*\)$|^  ([^\s(]+)$`)

// ParseRaceLog splits the content of a GORACE log into reports.
func ParseRaceLog(text string) []RaceReport {
	var out []RaceReport
	blocks := strings.Split(text, "WARNING: DATA RACE")
	for _, b := range blocks[1:] {
		if i := strings.Index(b, "=================="); i >= 0 {
			b = b[:i]
		}
		rep := RaceReport{Text: "WARNING: DATA RACE" + b}
		lines := strings.Split(b, "\n")
		var cur, curf []string
		flush := func() {
			if cur != nil {
				rep.Stacks = append(rep.Stacks, cur)
				rep.Files = append(rep.Files, curf)
			}
			cur, curf = nil, nil
		}
		for i := 0; i < len(lines); i++ {
			l := lines[i]
			if strings.HasPrefix(l, "  ") && !strings.HasPrefix(l, "   ") {
				fn := strings.TrimSpace(l)
				if j := strings.LastIndex(fn, "("); j > 0 {
					fn = fn[:j]
				}
				file := ""
				if i+1 < len(lines) && strings.HasPrefix(lines[i+1], "      ") {
					file = strings.TrimSpace(lines[i+1])
					if j := strings.Index(file, " +0x"); j > 0 {
						file = file[:j]
					}
				}
				cur = append(cur, fn)
				curf = append(curf, file)
			} else if strings.TrimSpace(l) == "" || !strings.HasPrefix(l, " ") {
				flush()
			}
		}
		flush()
		out = append(out, rep)
	}
	return out
}

// ReadRaceLogs reads every file <prefix>.* written by the race runtime.
func ReadRaceLogs(prefix string) []RaceReport {
	files, _ := filepath.Glob(prefix + ".*")
	sort.Strings(files)
	var out []RaceReport
	for _, f := range files {
		b, err := os.ReadFile(f)
		if err != nil {
			continue
		}
		out = append(out, ParseRaceLog(string(b))...)
	}
	return out
}

var lineNo = regexp.MustCompile(`:\d+$`)

// firstFrame returns the first frame of stack i whose function or file matches one of the substrings.
func (r RaceReport) firstFrame(i int, subs []string) (string, string) {
	if i >= len(r.Stacks) {
		return "", ""
	}
	for j, fn := range r.Stacks[i] {
		f := ""
		if j < len(r.Files[i]) {
			f = r.Files[i][j]
		}
		for _, s := range subs {
			if strings.Contains(fn, s) || strings.Contains(f, s) {
				return fn, f
			}
		}
	}
	return "", ""
}

// Key is the pair of first galene functions of the two racing accesses, line numbers stripped.
func (r RaceReport) Key() string {
	a, _ := r.firstFrame(0, []string{"jech/galene/"})
	b, _ := r.firstFrame(1, []string{"jech/galene/"})
	short := func(s string) string {
		if i := strings.LastIndex(s, "jech/galene/"); i >= 0 {
			s = s[i+len("jech/galene/"):]
		}
		return s
	}
	a, b = short(a), short(b)
	if a > b {
		a, b = b, a
	}
	return "race:" + a + "~" + b
}

// InFiles says whether one of the two racing accesses has any frame in a file
// whose path contains one of the given fragments.
func (r RaceReport) InFiles(frags []string) bool {
	for i := 0; i < 2 && i < len(r.Files); i++ {
		for _, f := range r.Files[i] {
			for _, fr := range frags {
				if strings.Contains(f, fr) {
					return true
				}
			}
		}
	}
	return false
}

// TopInFiles says whether the innermost galene frame of one of the two racing accesses
// lies in one of the files.
func (r RaceReport) TopInFiles(frags []string) bool {
	for i := 0; i < 2; i++ {
		_, f := r.firstFrame(i, []string{"jech/galene/"})
		for _, fr := range frags {
			if f != "" && strings.Contains(f, fr) {
				return true
			}
		}
	}
	return false
}

// RaceEnv returns the environment entries that make a race-instrumented child log
// every report to <prefix>.<pid> and keep going.
func RaceEnv(prefix string) []string {
	return []string{"GORACE=halt_on_error=0 exitcode=0 history_size=3 log_path=" + prefix}
}

// RaceGuard re-executes a race-instrumented single-process check as a child whose
// race reports go to a log; the parent then turns reports into verdicts.  scope
// lists source-file fragments that make a report relevant to the property.
// In the child (and in non-race builds) it returns immediately.
func RaceGuard(prop string, scope []string) {
	if !RaceEnabled || os.Getenv("VERIF_RACE_CHILD") == "1" {
		return
	}
	scratch := os.Getenv("VERIF_SCRATCH")
	if scratch == "" {
		scratch = os.TempDir()
	}
	prefix := filepath.Join(scratch, "racelog-"+prop)
	cmd := exec.Command(os.Args[0], os.Args[1:]...)
	cmd.Env = append(os.Environ(), "VERIF_RACE_CHILD=1")
	cmd.Env = append(cmd.Env, RaceEnv(prefix)...)
	cmd.Stdout = os.Stdout
	cmd.Stderr = os.Stderr
	err := cmd.Run()
	rc := 0
	if err != nil {
		if ee, ok := err.(*exec.ExitError); ok {
			rc = ee.ExitCode()
		} else {
			fmt.Printf("INCONCLUSIVE property=%s cannot start child: %v\n", prop, err)
			os.Exit(2)
		}
	}
	reports := ReadRaceLogs(prefix)
	// second pass with the light vsync variant (see overlay/vsync/light.go): the same command
	// built without the lock monitor, whose own synchronisation hides races from the detector.
	// It writes evidence/<prop>.light.json, which is merged into the evidence below.
	lightRC := 0
	var lightCov map[string]any
	lightViol := 0
	if lb := os.Getenv("VERIF_LIGHT_BIN"); lb != "" && rc != 2 && os.Getenv("VERIF_REPLAY") == "" {
		prefix2 := filepath.Join(scratch, "racelog-light-"+prop)
		cmd2 := exec.Command(lb, os.Args[1:]...)
		cmd2.Env = append(os.Environ(), "VERIF_RACE_CHILD=1", "VERIF_LIGHT=1")
		cmd2.Env = append(cmd2.Env, RaceEnv(prefix2)...)
		cmd2.Stdout = os.Stdout
		cmd2.Stderr = os.Stderr
		if err := cmd2.Run(); err != nil {
			if ee, ok := err.(*exec.ExitError); ok {
				lightRC = ee.ExitCode()
			} else {
				lightRC = 2
			}
		}
		reports = append(reports, ReadRaceLogs(prefix2)...)
		verifDir := os.Getenv("VERIF_DIR")
		lp := filepath.Join(verifDir, "evidence", prop+".light.json")
		if b, err := os.ReadFile(lp); err == nil {
			var ev map[string]any
			if json.Unmarshal(b, &ev) == nil {
				lightCov, _ = ev["coverage"].(map[string]any)
				if v, ok := ev["violations"].(float64); ok {
					lightViol = int(v)
				}
			}
			os.Remove(lp)
		}
		if lightRC == 2 && rc == 0 {
			rc = 2
		}
		if lightRC == 1 {
			rc = 1
		}
	}
	if len(reports) == 0 && lightCov == nil {
		os.Exit(rc)
	}
	// evaluate the reports with a fresh Run that only patches the evidence
	r := Start(prop)
	seen := map[string]int{}
	other := 0
	for _, rep := range reports {
		if len(scope) > 0 && !rep.InFiles(scope) {
			other++
			continue
		}
		k := rep.Key()
		seen[k]++
		if seen[k] == 1 {
			r.Violation(k, "data race reported by the Go race detector", map[string]any{"report": rep.Text})
		}
	}
	extra := map[string]any{"race_reports": len(reports), "race_reports_out_of_scope": other, "race_report_keys": keysOf(seen)}
	if lightCov != nil {
		delete(lightCov, "samples")
		delete(lightCov, "rule")
		extra["light_vsync_pass"] = lightCov
	}
	PatchEvidence(r, extra, r.Violations()+lightViol)
	if r.Violations() > 0 {
		os.Exit(1)
	}
	os.Exit(rc)
}

func keysOf(m map[string]int) []string {
	var ks []string
	for k, n := range m {
		ks = append(ks, fmt.Sprintf("%s x%d", k, n))
	}
	sort.Strings(ks)
	return ks
}
