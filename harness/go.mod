module verif/harness

go 1.24.0

require (
	github.com/anishathalye/porcupine v1.3.0
	github.com/jech/galene v0.0.0
)

replace github.com/jech/galene => ../galene
