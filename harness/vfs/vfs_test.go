package vfs

import (
	"strings"
	"testing"
)

const sample = `100 openat(AT_FDCWD</w>, "/w/var/tokens.jsonl", O_RDONLY|O_CLOEXEC) = 5</w/var/tokens.jsonl>
100 close(5</w/var/tokens.jsonl>)       = 0
100 unlinkat(AT_FDCWD</w>, "/nonexistent-verif/BEGIN", 0) = -1 ENOENT (No such file or directory)
100 openat(AT_FDCWD</w>, "/w/var/tokens123", O_RDWR|O_CREAT|O_EXCL|O_CLOEXEC, 0600) = 5</w/var/tokens123>
101 write(2</dev/null>, "x) = 1 \"q\"", 9 <unfinished ...>
100 write(5</w/var/tokens123>, "{\"token\":\"a\",\"group\":\"(g)\""..., 95) = -1 ENOSPC (No space left on device) (INJECTED)
101 <... write resumed>)              = 9
100 close(5</w/var/tokens123>)          = 0
100 renameat(AT_FDCWD</w>, "/w/var/tokens123", AT_FDCWD</w>, "/w/var/tokens.jsonl") = ?
101 +++ killed by SIGKILL +++
100 +++ killed by SIGKILL +++
`

func TestParse(t *testing.T) {
	tr := Parse(strings.NewReader(sample))
	if len(tr.Bad) != 0 {
		t.Fatalf("unparsed lines: %v", tr.Bad)
	}
	if tr.MainTid != 100 || len(tr.Calls) != 8 {
		t.Fatalf("main=%d calls=%d", tr.MainTid, len(tr.Calls))
	}
	w := tr.Calls[5]
	if w.Name != "write" || !w.Injected || w.Errno != "ENOSPC" || w.Ret != "-1" || w.NameOrd != 1 || !w.HasPath("/w/var/tokens123") {
		t.Fatalf("injected write parsed as %+v", w)
	}
	o := tr.Calls[4]
	if o.Tid != 101 || !o.Finished || o.Ret != "9" {
		t.Fatalf("resumed write parsed as %+v", o)
	}
	hit, ok := tr.HitAt("renameat", 1)
	if !ok || hit.Tid != 100 || hit.Finished || !hit.HasPath("/w/var/tokens.jsonl") {
		t.Fatalf("victim: %+v %v", hit, ok)
	}
	calls, began, complete := tr.Window(MarkBegin, MarkEnd)
	if !began || complete || len(calls) != 4 || calls[0].Name != "openat" || calls[0].NameOrd != 2 {
		t.Fatalf("window: %v %v %+v", began, complete, calls)
	}
	if tr.Killed[100] != "SIGKILL" {
		t.Fatalf("killed: %v", tr.Killed)
	}
}
