// Package vfs runs a program under strace with optional syscall fault injection and
// parses the resulting log.  It is the shared mechanism of the crash-atomicity monitors
// (C16, C18): "kill the process on entry to the N-th file-system syscall of a thread" and
// "make the N-th write/fsync/rename fail with EIO/ENOSPC".
//
// strace semantics relied upon (strace 6.x, Linux):
//
//   - `-e inject=NAME:signal=SIGKILL:when=N` delivers SIGKILL at the syscall-enter stop of the
//     N-th call of syscall NAME made by a tracee; a fatal signal pending at that stop makes
//     the kernel skip the syscall, so the process dies immediately BEFORE the syscall has
//     any effect.  N is counted per tracee (i.e. per thread) AND PER SYSCALL NUMBER: with a
//     set of several names every name has its own counter (verified with strace 6.1), so
//     injection expressions here always name one syscall and use its per-name ordinal.
//   - `-e inject=NAME:error=E:when=N` skips the N-th call and makes it return -E; the log
//     line carries "(INJECTED)".
//   - with -o and -f every line starts with the thread id; a syscall interrupted by another
//     thread's output is split in "<unfinished ...>" / "<... name resumed>" halves.
//   - when the tracee is killed by a signal strace kills itself with the same signal.
package vfs

import (
	"bufio"
	"bytes"
	"context"
	"errors"
	"fmt"
	"io"
	"os"
	"os/exec"
	"regexp"
	"strconv"
	"strings"
	"syscall"
	"time"
)

// MutatingSet is the set of syscalls through which a Go program creates, writes, syncs,
// renames, removes or closes files.
const MutatingSet = "openat,write,pwrite64,fsync,fdatasync,rename,renameat,renameat2,unlink,unlinkat,ftruncate,close,mkdir,mkdirat,chmod,fchmod"

// Syscall is one traced system call.
type Syscall struct {
	Tid      int
	Name     string
	Args     string // text between the parentheses (cut at "<unfinished" when the call never returned)
	Ret      string // "0", "3", "-1", "?"; "" when the log holds no return at all
	Errno    string // "ENOENT", ... when Ret is -1
	Injected bool   // strace tampered with this call (error injection)
	Finished bool   // a return value (other than "?") was logged
	Ord      int    // 1-based ordinal among the logged syscalls of this thread
	NameOrd  int    // 1-based ordinal among this thread's calls of the same name (= strace's when= count for inject=<name>)
	Paths    []string
}

// HasPathPrefix says whether one of the paths mentioned by the call (string arguments and
// -y fd annotations) starts with prefix.
func (s Syscall) HasPathPrefix(prefix string) bool {
	for _, p := range s.Paths {
		if strings.HasPrefix(p, prefix) {
			return true
		}
	}
	return false
}

// HasPath says whether the call mentions exactly this path.
func (s Syscall) HasPath(path string) bool {
	for _, p := range s.Paths {
		if p == path {
			return true
		}
	}
	return false
}

func (s Syscall) String() string {
	r := s.Ret
	if s.Errno != "" {
		r += " " + s.Errno
	}
	if s.Injected {
		r += " (INJECTED)"
	}
	if r == "" {
		r = "<never returned>"
	}
	return fmt.Sprintf("[tid %d #%d] %s(%s) = %s", s.Tid, s.Ord, s.Name, s.Args, r)
}

// Trace is a parsed strace log.
type Trace struct {
	Calls   []Syscall
	MainTid int            // thread id of the first line (the traced program's main thread)
	Killed  map[int]string // tid -> signal name ("+++ killed by SIGKILL +++")
	Exited  map[int]int    // tid -> exit status
	Bad     []string       // lines that could not be parsed
}

// Thread returns the calls of one thread in order.
func (t *Trace) Thread(tid int) []Syscall {
	var out []Syscall
	for _, c := range t.Calls {
		if c.Tid == tid {
			out = append(out, c)
		}
	}
	return out
}

// Main returns the calls of the main thread.
func (t *Trace) Main() []Syscall { return t.Thread(t.MainTid) }

// Tampered returns the calls whose result strace replaced (error injection; the log line
// carries "(INJECTED)").  The victim of a signal injection is found with HitAt.
func (t *Trace) Tampered() []Syscall {
	var out []Syscall
	for _, c := range t.Calls {
		if c.Injected {
			out = append(out, c)
		}
	}
	return out
}

// HitAt returns the n-th call of the named syscall on some thread that never returned:
// the victim of `inject=<name>:signal=SIGKILL:when=n`.  When several threads qualify the
// main thread's call is preferred.
func (t *Trace) HitAt(name string, n int) (Syscall, bool) {
	var found *Syscall
	for i := range t.Calls {
		c := &t.Calls[i]
		if c.Name == name && c.NameOrd == n && !c.Finished {
			if found == nil || c.Tid == t.MainTid {
				found = c
			}
		}
	}
	if found == nil {
		return Syscall{}, false
	}
	return *found, true
}

var (
	reQuoted = regexp.MustCompile(`"((?:[^"\\]|\\.)*)"`)
	reAnnot  = regexp.MustCompile(`<([^<>]+)>`)
	reRet    = regexp.MustCompile(`^\s*=\s*(-?\d+|\?|0x[0-9a-f]+)(?:<[^>]*>)?(?:\s+([A-Z][A-Z0-9_]+))?`)
	reResume = regexp.MustCompile(`^<\.\.\. (\w+) resumed>`)
	reExit   = regexp.MustCompile(`^\+\+\+ exited with (\d+) \+\+\+`)
	reKill   = regexp.MustCompile(`^\+\+\+ killed by (\w+)`)
	reCall   = regexp.MustCompile(`^(\w+)\(`)
)

func extractPaths(args string) []string {
	var out []string
	for _, m := range reQuoted.FindAllStringSubmatch(args, -1) {
		if strings.HasPrefix(m[1], "/") || strings.HasPrefix(m[1], ".") {
			out = append(out, m[1])
		}
	}
	// annotations: strip quoted strings first so that data containing '<' cannot confuse us
	bare := reQuoted.ReplaceAllString(args, `""`)
	for _, m := range reAnnot.FindAllStringSubmatch(bare, -1) {
		if strings.HasPrefix(m[1], "/") {
			out = append(out, strings.TrimSuffix(m[1], " (deleted)"))
		}
	}
	return out
}

// splitCall splits "args) = ret ..." at the parenthesis that closes the argument list,
// honouring quoted strings.
func splitCall(s string) (args, rest string, ok bool) {
	depth := 0
	inq := false
	for i := 0; i < len(s); i++ {
		c := s[i]
		switch {
		case inq:
			if c == '\\' {
				i++
			} else if c == '"' {
				inq = false
			}
		case c == '"':
			inq = true
		case c == '(' || c == '[' || c == '{':
			depth++
		case c == ')' || c == ']' || c == '}':
			if depth == 0 && c == ')' {
				return s[:i], s[i+1:], true
			}
			if depth > 0 {
				depth--
			}
		}
	}
	return s, "", false
}

// Parse reads a strace log produced with -o (with or without -f).
func Parse(r io.Reader) *Trace {
	t := &Trace{Killed: map[int]string{}, Exited: map[int]int{}}
	ord := map[int]int{}
	nameOrd := map[int]map[string]int{}
	pending := map[int]int{} // tid -> index in t.Calls of its unfinished call
	sc := bufio.NewScanner(r)
	sc.Buffer(make([]byte, 1<<20), 1<<24)
	first := true
	for sc.Scan() {
		line := sc.Text()
		if strings.TrimSpace(line) == "" {
			continue
		}
		tid := 0
		body := line
		if i := strings.IndexByte(line, ' '); i > 0 {
			if v, err := strconv.Atoi(line[:i]); err == nil {
				tid = v
				body = strings.TrimLeft(line[i+1:], " ")
			}
		}
		if first {
			t.MainTid = tid
			first = false
		}
		switch {
		case strings.HasPrefix(body, "+++"):
			if m := reExit.FindStringSubmatch(body); m != nil {
				v, _ := strconv.Atoi(m[1])
				t.Exited[tid] = v
			} else if m := reKill.FindStringSubmatch(body); m != nil {
				t.Killed[tid] = m[1]
			}
			continue
		case strings.HasPrefix(body, "---"):
			continue // signal delivery
		}
		finish := func(c *Syscall, rest string) {
			if m := reRet.FindStringSubmatch(rest); m != nil {
				c.Ret = m[1]
				c.Errno = m[2]
				c.Finished = c.Ret != "?"
			}
			if strings.Contains(rest, "(INJECTED)") {
				c.Injected = true
			}
		}
		if m := reResume.FindStringSubmatch(body); m != nil {
			idx, ok := pending[tid]
			if !ok {
				t.Bad = append(t.Bad, line)
				continue
			}
			delete(pending, tid)
			c := &t.Calls[idx]
			tail := body[len(m[0]):]
			args, rest, ok := splitCall(tail)
			if ok {
				c.Args += args
				c.Paths = extractPaths(c.Args)
				finish(c, rest)
			}
			continue
		}
		m := reCall.FindStringSubmatch(body)
		if m == nil {
			t.Bad = append(t.Bad, line)
			continue
		}
		c := Syscall{Tid: tid, Name: m[1]}
		ord[tid]++
		c.Ord = ord[tid]
		if nameOrd[tid] == nil {
			nameOrd[tid] = map[string]int{}
		}
		nameOrd[tid][c.Name]++
		c.NameOrd = nameOrd[tid][c.Name]
		tail := body[len(m[0]):]
		if i := strings.Index(tail, "<unfinished ...>"); i >= 0 && strings.HasSuffix(strings.TrimSpace(tail), "<unfinished ...>") {
			c.Args = strings.TrimRight(tail[:i], " ")
			c.Paths = extractPaths(c.Args)
			t.Calls = append(t.Calls, c)
			pending[tid] = len(t.Calls) - 1
			continue
		}
		args, rest, ok := splitCall(tail)
		c.Args = args
		c.Paths = extractPaths(args)
		if ok {
			finish(&c, rest)
		}
		t.Calls = append(t.Calls, c)
	}
	return t
}

// ParseFile parses the log at path.
func ParseFile(path string) (*Trace, error) {
	f, err := os.Open(path)
	if err != nil {
		return nil, err
	}
	defer f.Close()
	return Parse(f), nil
}

// Options describes one traced execution.
type Options struct {
	Argv     []string      // program and arguments
	Env      []string      // full environment of the program (nil: inherit)
	Dir      string        // working directory
	TraceSet string        // -e trace=...; "" => MutatingSet
	Inject   []string      // each becomes -e inject=<value>, e.g. "write:error=ENOSPC:when=3"
	LogPath  string        // where strace writes its log (required)
	NoFollow bool          // do not pass -f
	Timeout  time.Duration // 0 => 60 s
	Stdin    []byte
}

// Result of a traced execution.
type Result struct {
	Trace    *Trace
	Exit     int    // exit status of the program (-1 if it did not exit normally)
	Killed   bool   // the program was killed by a signal
	Signal   string // which one
	TimedOut bool
	Stdout   []byte
	Stderr   []byte
	Wall     time.Duration
}

// Available reports whether strace can be used here.
func Available() error {
	p, err := exec.LookPath("strace")
	if err != nil {
		return errors.New("strace not found in PATH")
	}
	out, err := exec.Command(p, "-V").CombinedOutput()
	if err != nil {
		return fmt.Errorf("strace -V: %v", err)
	}
	if !bytes.Contains(out, []byte("strace")) {
		return errors.New("unexpected strace -V output")
	}
	return nil
}

// Run executes Argv under strace.  The returned error is only about the mechanism
// (strace missing, log unreadable); how the program ended is in the Result.
func Run(o Options) (Result, error) {
	var res Result
	res.Exit = -1
	if o.LogPath == "" {
		return res, errors.New("vfs.Run: LogPath required")
	}
	set := o.TraceSet
	if set == "" {
		set = MutatingSet
	}
	args := []string{"-y", "-o", o.LogPath, "-e", "trace=" + set}
	if !o.NoFollow {
		args = append([]string{"-f"}, args...)
	}
	for _, in := range o.Inject {
		args = append(args, "-e", "inject="+in)
	}
	args = append(args, "--")
	args = append(args, o.Argv...)
	tmo := o.Timeout
	if tmo == 0 {
		tmo = 60 * time.Second
	}
	ctx, cancel := context.WithTimeout(context.Background(), tmo)
	defer cancel()
	os.Remove(o.LogPath)
	cmd := exec.CommandContext(ctx, "strace", args...)
	cmd.Env = o.Env
	cmd.Dir = o.Dir
	var so, se bytes.Buffer
	cmd.Stdout = &so
	cmd.Stderr = &se
	if o.Stdin != nil {
		cmd.Stdin = bytes.NewReader(o.Stdin)
	}
	cmd.SysProcAttr = &syscall.SysProcAttr{Setpgid: true}
	cmd.Cancel = func() error { return syscall.Kill(-cmd.Process.Pid, syscall.SIGKILL) }
	start := time.Now()
	err := cmd.Run()
	res.Wall = time.Since(start)
	res.Stdout, res.Stderr = so.Bytes(), se.Bytes()
	if ctx.Err() != nil {
		res.TimedOut = true
	}
	if err != nil {
		var ee *exec.ExitError
		if !errors.As(err, &ee) {
			return res, fmt.Errorf("vfs.Run: %v", err)
		}
	}
	tr, perr := ParseFile(o.LogPath)
	if perr != nil {
		return res, fmt.Errorf("vfs.Run: strace wrote no log (%v): %s", perr, strings.TrimSpace(se.String()))
	}
	res.Trace = tr
	// how the program ended is taken from the log (strace mirrors it in its own status,
	// but the log is unambiguous about which thread and which signal)
	if sig, ok := tr.Killed[tr.MainTid]; ok {
		res.Killed, res.Signal = true, sig
	} else if st, ok := tr.Exited[tr.MainTid]; ok {
		res.Exit = st
	} else {
		for _, sig := range tr.Killed {
			res.Killed, res.Signal = true, sig
		}
	}
	return res, nil
}

// KillAt is the inject expression that kills a thread on entry to its n-th call of the
// named syscall (n = Point.NameOrd / Syscall.NameOrd).
func KillAt(name string, n int) string {
	return fmt.Sprintf("%s:signal=SIGKILL:when=%d", name, n)
}

// FailAt is the inject expression that makes a thread's n-th call of the named syscall fail.
func FailAt(name, errno string, n int) string {
	return fmt.Sprintf("%s:error=%s:when=%d", name, errno, n)
}

// Window returns the calls of the main thread strictly between two marker calls: the
// first call mentioning beginPath and the first later call mentioning endPath.  A traced
// program brackets its operation with two harmless failing calls, e.g.
// unlink("/nonexistent-verif/BEGIN") and unlink("/nonexistent-verif/END").  If the end
// marker is missing (the program died inside the window) everything after the begin
// marker is returned and complete is false.
func (t *Trace) Window(beginPath, endPath string) (calls []Syscall, began, complete bool) {
	for _, c := range t.Main() {
		if !began {
			if c.HasPath(beginPath) {
				began = true
			}
			continue
		}
		if c.HasPath(endPath) {
			return calls, true, true
		}
		calls = append(calls, c)
	}
	return calls, began, false
}

// Marker returns the main thread's first call that mentions path (a marker call).
func (t *Trace) Marker(path string) (Syscall, bool) {
	for _, c := range t.Main() {
		if c.HasPath(path) {
			return c, true
		}
	}
	return Syscall{}, false
}

// Markers: a traced child brackets the one operation under test with two harmless
// failing unlink calls so that the parent can find the operation's window in the log.
const (
	MarkBegin = "/nonexistent-verif/BEGIN"
	MarkEnd   = "/nonexistent-verif/END"
)

// Mark issues the marker syscall (unlink of a path that cannot exist).
func Mark(path string) { syscall.Unlink(path) }

// Point is one syscall of the operation's window in the uninjected (baseline) run.
type Point struct {
	Ord     int    // per-thread ordinal among all traced calls
	NameOrd int    // per-thread ordinal among calls of this name: the N of KillAt and FailAt
	Name    string // syscall name
	Args    string
	Index   int // 0-based position inside the window
}

// Points lists the calls the main thread made between the two markers of a baseline
// trace.  It fails if the markers are missing, or if another thread touched a path under
// watchDir (then per-thread injection counts would not cover the operation).
func Points(t *Trace, watchDir string) ([]Point, error) {
	calls, began, complete := t.Window(MarkBegin, MarkEnd)
	if !began || !complete {
		return nil, fmt.Errorf("baseline trace lacks the operation markers (began=%v complete=%v)", began, complete)
	}
	if watchDir != "" {
		for _, c := range t.Calls {
			if c.Tid != t.MainTid && c.HasPathPrefix(watchDir) {
				return nil, fmt.Errorf("thread %d (not the main thread) touched %s: %s", c.Tid, watchDir, c.String())
			}
		}
	}
	var out []Point
	for i, c := range calls {
		out = append(out, Point{Ord: c.Ord, NameOrd: c.NameOrd, Name: c.Name, Args: c.Args, Index: i})
	}
	return out, nil
}
