package vdown

import (
	"sync"
	"time"

	"github.com/pion/interceptor"
	"github.com/pion/rtcp"
	"github.com/pion/rtp"
	"github.com/pion/webrtc/v4"

	"github.com/jech/galene/conn"
	"github.com/jech/galene/packetcache"
	"github.com/jech/galene/rtpconn"
	"github.com/jech/galene/rtptime"
)

const (
	BindSSRC = 0x0BADCAFE
	BindPT   = 97
)

// fakeUp is the harness-side conn.UpTrack: the publisher's track as the down track sees it.
type fakeUp struct {
	codec   webrtc.RTPCodecCapability
	cache   *packetcache.Cache
	mu      sync.Mutex
	kfReq   int
	nackReq []uint16
}

func (u *fakeUp) AddLocal(conn.DownTrack) error    { return nil }
func (u *fakeUp) DelLocal(conn.DownTrack) bool     { return true }
func (u *fakeUp) Kind() webrtc.RTPCodecType        { return webrtc.RTPCodecTypeVideo }
func (u *fakeUp) Label() string                    { return "" }
func (u *fakeUp) Codec() webrtc.RTPCodecCapability { return u.codec }
func (u *fakeUp) GetPacket(seqno uint16, result []byte, nack bool) uint16 {
	n := u.cache.Get(seqno, result)
	if n == 0 && nack {
		u.mu.Lock()
		u.nackReq = append(u.nackReq, seqno)
		u.mu.Unlock()
	}
	return n
}
func (u *fakeUp) RequestKeyframe() error {
	u.mu.Lock()
	u.kfReq++
	u.mu.Unlock()
	return nil
}

// Out is one packet written by the down track to its bound write stream.
type Out struct {
	Header  rtp.Header
	Payload []byte
	Raw     []byte // header+payload re-marshalled
}

type capture struct {
	mu   sync.Mutex
	outs []Out
}

func (c *capture) WriteRTP(h *rtp.Header, payload []byte) (int, error) {
	o := Out{Header: h.Clone(), Payload: append([]byte(nil), payload...)}
	raw, err := (&rtp.Packet{Header: o.Header, Payload: o.Payload}).Marshal()
	if err == nil {
		o.Raw = raw
	}
	c.mu.Lock()
	c.outs = append(c.outs, o)
	c.mu.Unlock()
	return len(payload), nil
}

func (c *capture) Write(b []byte) (int, error) {
	var p rtp.Packet
	if err := p.Unmarshal(b); err != nil {
		return 0, err
	}
	return c.WriteRTP(&p.Header, p.Payload)
}

type bindCtx struct {
	w      *capture
	params []webrtc.RTPCodecParameters
}

func (c *bindCtx) CodecParameters() []webrtc.RTPCodecParameters           { return c.params }
func (c *bindCtx) HeaderExtensions() []webrtc.RTPHeaderExtensionParameter { return nil }
func (c *bindCtx) SSRC() webrtc.SSRC                                      { return BindSSRC }
func (c *bindCtx) SSRCRetransmission() webrtc.SSRC                        { return 0 }
func (c *bindCtx) SSRCForwardErrorCorrection() webrtc.SSRC                { return 0 }
func (c *bindCtx) WriteStream() webrtc.TrackLocalWriter                   { return c.w }
func (c *bindCtx) ID() string                                             { return "verif-binding" }
func (c *bindCtx) RTCPReader() interceptor.RTCPReader                     { return nil }

// World is one publisher track, its packet cache, and one receiver's down track.
type World struct {
	Codec Codec
	Cache *packetcache.Cache
	Up    *fakeUp
	cap   *capture
	D     *rtpconn.VerifDownTrack
	// InputModified counts calls of Write that altered the caller's buffer (the writer loop
	// hands one buffer to every down track in turn, so it must stay untouched).
	InputModified int
}

func NewWorld(codec Codec, cacheCap int) *World {
	cc := webrtc.RTPCodecCapability{MimeType: codec.Mime(), ClockRate: 90000}
	local, err := webrtc.NewTrackLocalStaticRTP(cc, "v", "s")
	if err != nil {
		panic(err)
	}
	cp := &capture{}
	_, err = local.Bind(&bindCtx{w: cp, params: []webrtc.RTPCodecParameters{{RTPCodecCapability: cc, PayloadType: BindPT}}})
	if err != nil {
		panic(err)
	}
	up := &fakeUp{codec: cc, cache: packetcache.New(cacheCap)}
	d := rtpconn.VerifNewDownTrack(up, local, BindSSRC, time.Millisecond)
	return &World{Codec: codec, Cache: up.cache, Up: up, cap: cp, D: d}
}

// Outs returns the number of packets captured so far.
func (w *World) OutCount() int {
	w.cap.mu.Lock()
	defer w.cap.mu.Unlock()
	return len(w.cap.outs)
}

// OutsFrom returns a copy of the captured packets from index i on.
func (w *World) OutsFrom(i int) []Out {
	w.cap.mu.Lock()
	defer w.cap.mu.Unlock()
	return append([]Out(nil), w.cap.outs[i:]...)
}

// Store puts a source packet into the publisher's cache the way the receive loop does.
func (w *World) Store(p *Pkt) {
	var pk rtp.Packet
	pk.Unmarshal(p.Bytes)
	w.Cache.Store(p.Seqno(), pk.Timestamp, p.Key, p.Marker, p.Bytes)
}

// Deliver stores p in the cache and hands it to the down track's real Write.
// It returns the packets that came out of the bound write stream during the call.
func (w *World) Deliver(p *Pkt) ([]Out, int, error) {
	w.Store(p)
	return w.Write(p.Bytes)
}

// Write calls the real rtpDownTrack.Write on a private copy of raw (as the writer loop's
// buffer would be) and returns what was captured during the call.
func (w *World) Write(raw []byte) ([]Out, int, error) {
	before := w.OutCount()
	buf := append([]byte(nil), raw...)
	n, err := w.D.Write(buf)
	if string(buf) != string(raw) {
		w.InputModified++
	}
	return w.OutsFrom(before), n, err
}

// NACK injects a receiver NACK for the given outgoing sequence numbers and returns the
// packets written in response.
func (w *World) NACK(seqnos []uint16) []Out {
	before := w.OutCount()
	var pairs []rtcp.NackPair
	for _, s := range seqnos {
		pairs = append(pairs, rtcp.NackPair{PacketID: s})
	}
	w.D.GotNACK(&rtcp.TransportLayerNack{MediaSSRC: BindSSRC, Nacks: pairs})
	return w.OutsFrom(before)
}

// NACKPairs injects raw NACK pairs (first, bitmap).
func (w *World) NACKPairs(pairs []rtcp.NackPair) []Out {
	before := w.OutCount()
	w.D.GotNACK(&rtcp.TransportLayerNack{MediaSSRC: BindSSRC, Nacks: pairs})
	return w.OutsFrom(before)
}

// UpstreamNACKs returns (and clears) the seqnos for which GetPacket was asked to schedule an upstream NACK.
func (w *World) UpstreamNACKs() []uint16 {
	w.Up.mu.Lock()
	defer w.Up.mu.Unlock()
	r := w.Up.nackReq
	w.Up.nackReq = nil
	return r
}

func (w *World) KeyframeRequests() int {
	w.Up.mu.Lock()
	defer w.Up.mu.Unlock()
	return w.Up.kfReq
}

// SwitchDown makes the real adjustLayer lower the wanted layer by one step: a tiny REMB
// ceiling, then an estimator interval (1 ms) is allowed to elapse so that the measured
// rate of what was just written exceeds it.
func (w *World) SwitchDown() {
	w.D.SetREMB(1, rtptime.Jiffies())
	time.Sleep(1200 * time.Microsecond)
	w.D.AdjustLayer()
}

// SwitchUp makes the real adjustLayer raise the wanted layer by one step: a huge REMB
// ceiling and two idle estimator intervals so that the measured rate is zero.
func (w *World) SwitchUp() {
	w.D.SetREMB(1<<40, rtptime.Jiffies())
	time.Sleep(1200 * time.Microsecond)
	w.D.AdjustLayer()
	w.D.SetREMB(1<<40, rtptime.Jiffies())
	time.Sleep(1200 * time.Microsecond)
	w.D.AdjustLayer()
}
