package vdown

import "math/rand/v2"

// DeliveryCfg describes how the source stream reaches the server.
type DeliveryCfg struct {
	LossProb    float64 // packet never arrives
	DupProb     float64 // an extra copy arrives a little later
	ReorderProb float64 // packet is delayed by 1..MaxDelay positions
	MaxDelay    int
}

// Arrival is one packet reaching the server (Idx into the source stream).
type Arrival struct {
	Idx int
}

// Schedule turns a source stream of n packets into an arrival order.
func Schedule(n int, cfg DeliveryCfg, r *rand.Rand) []int {
	type ev struct {
		at  float64
		idx int
	}
	var evs []ev
	for i := 0; i < n; i++ {
		if cfg.LossProb > 0 && r.Float64() < cfg.LossProb {
			continue
		}
		at := float64(i)
		if cfg.ReorderProb > 0 && cfg.MaxDelay > 0 && r.Float64() < cfg.ReorderProb {
			at += float64(1+r.IntN(cfg.MaxDelay)) + 0.5
		}
		evs = append(evs, ev{at, i})
		if cfg.DupProb > 0 && r.Float64() < cfg.DupProb {
			d := 0.25
			if cfg.MaxDelay > 0 {
				d += float64(r.IntN(cfg.MaxDelay + 1))
			}
			evs = append(evs, ev{at + d, i})
		}
	}
	// stable insertion sort by time (n is small enough; keeps determinism)
	out := make([]int, 0, len(evs))
	// bucket by integer time to stay O(n log n)
	sortEvs(evs, func(a, b ev) bool {
		if a.at != b.at {
			return a.at < b.at
		}
		return a.idx < b.idx
	})
	for _, e := range evs {
		out = append(out, e.idx)
	}
	return out
}

func sortEvs[T any](a []T, less func(x, y T) bool) {
	// simple merge sort, stable
	if len(a) < 2 {
		return
	}
	mid := len(a) / 2
	l := append([]T(nil), a[:mid]...)
	r := append([]T(nil), a[mid:]...)
	sortEvs(l, less)
	sortEvs(r, less)
	i, j, k := 0, 0, 0
	for i < len(l) && j < len(r) {
		if less(r[j], l[i]) {
			a[k] = r[j]
			j++
		} else {
			a[k] = l[i]
			i++
		}
		k++
	}
	for i < len(l) {
		a[k] = l[i]
		i++
		k++
	}
	for j < len(r) {
		a[k] = r[j]
		j++
		k++
	}
}

// Fenwick counts set members below an index (withheld packets before a source position).
type Fenwick struct{ t []int }

func NewFenwick(n int) *Fenwick { return &Fenwick{t: make([]int, n+2)} }

func (f *Fenwick) Add(i int) {
	for i++; i < len(f.t); i += i & -i {
		f.t[i]++
	}
}

// Below returns the number of members < i.
func (f *Fenwick) Below(i int) int {
	s := 0
	for ; i > 0; i -= i & -i {
		s += f.t[i]
	}
	return s
}
