// Package vdown drives galene's real forwarding path (rtpDownTrack.Write, gotNACK,
// adjustLayer, updateRate) through the verif export shim, with a capturing write
// stream bound to the down track's TrackLocalStaticRTP, and provides generators of
// id-tagged VP8/VP9/opaque RTP streams.  The oracles live in the cmd/c0x packages.
package vdown

import (
	"encoding/binary"
	"fmt"
	"math/rand/v2"

	"github.com/pion/rtp"
	pcodecs "github.com/pion/rtp/codecs"
)

type Codec int

const (
	VP8 Codec = iota
	VP9
	Opaque // any other codec name: no layers, nothing but seqno/marker may change
)

func (c Codec) Mime() string {
	switch c {
	case VP8:
		return "video/VP8"
	case VP9:
		return "video/VP9"
	}
	return "video/H264"
}

// Pkt is one source packet together with the generator's ground truth about it.
type Pkt struct {
	Idx    int    `json:"idx"` // position in the source stream
	Ext    int64  `json:"ext"` // extended source sequence number
	Pic    int    `json:"pic"` // picture (all packets with one timestamp)
	Frame  int    `json:"frm"` // layer frame (VP9: one per spatial layer of a picture)
	Tid    uint8  `json:"tid"`
	Sid    uint8  `json:"sid"`
	Start  bool   `json:"start,omitempty"`  // first packet of the layer frame
	End    bool   `json:"end,omitempty"`    // last packet of the layer frame
	Key    bool   `json:"key,omitempty"`    // Start of a keyframe
	UpSync bool   `json:"up,omitempty"`     // VP8 Y / VP9 U
	NoPred bool   `json:"nopred,omitempty"` // VP9 !P (spatial up-switch point)
	NonRef bool   `json:"z,omitempty"`      // VP9 Z
	Marker bool   `json:"m,omitempty"`
	Pid    uint16 `json:"pid"`
	Bytes  []byte `json:"-"`
}

func (p *Pkt) Seqno() uint16 { return uint16(p.Ext) }

func (p *Pkt) String() string {
	return fmt.Sprintf("#%d seq=%d pic=%d t%d s%d start=%v end=%v key=%v up=%v z=%v m=%v pid=%d len=%d",
		p.Idx, p.Seqno(), p.Pic, p.Tid, p.Sid, p.Start, p.End, p.Key, p.UpSync, p.NonRef, p.Marker, p.Pid, len(p.Bytes))
}

// StreamCfg describes a generated source stream.
type StreamCfg struct {
	Codec    Codec
	StartSeq uint16
	StartPid uint16
	PidBits  int // 0 (no picture id), 7 or 15
	StartTS  uint32
	CSRCs    int
	// VP8 descriptor shape
	VP8L, VP8K bool // TL0PICIDX / KEYIDX present
	VP8NoT     bool // no T bit: every packet is tid 0
	// VP8Parts: packets after the first of a frame may begin a later VP8 partition (S=1 with
	// a non-zero partition index): NOT a frame start.  0 = Generate decides (half of the
	// streams), 1 = never, 2 = always possible
	VP8Parts int
	// VP9
	Flexible bool
	SLayers  int // spatial layers 1..3 (VP9 only)
	// layering
	TPattern        []uint8 // temporal id per picture, cyclic; nil => random 0..TMax
	TMax            uint8
	UpSyncProb      float64 // probability that a non-key frame start carries the up-switch flag
	KeyEvery        int     // a keyframe every n pictures (0: only the first)
	KeyProb         float64 // additional random keyframes
	ZProb           float64 // VP9: probability that a lower-layer frame is non-reference
	MaxPktsPerFrame int
	MaxFill         int // filler bytes per packet 0..MaxFill
	MaxTotal        int // if > 0, one packet in eight is filled up to a total size of MaxTotal-4..MaxTotal bytes
	Pictures        int
}

// TemporalPatterns are the usual libvpx layer patterns.
var TemporalPatterns = [][]uint8{
	{0},
	{0, 1},
	{0, 2, 1, 2},
	{0, 3, 2, 3, 1, 3, 2, 3},
}

func vp8Desc(cfg *StreamCfg, start bool, part uint8, pid uint16, tid uint8, y bool, nonref bool, tl0, keyidx uint8) []byte {
	i := cfg.PidBits != 0
	t := !cfg.VP8NoT
	x := i || cfg.VP8L || t || cfg.VP8K
	var b []byte
	b0 := byte(0)
	if x {
		b0 |= 0x80
	}
	if nonref {
		b0 |= 0x20
	}
	if start {
		b0 |= 0x10
	} else if part > 0 {
		b0 |= 0x10 | part&7 // start of a later partition
	}
	b = append(b, b0)
	if !x {
		return b
	}
	b1 := byte(0)
	if i {
		b1 |= 0x80
	}
	if cfg.VP8L {
		b1 |= 0x40
	}
	if t {
		b1 |= 0x20
	}
	if cfg.VP8K {
		b1 |= 0x10
	}
	b = append(b, b1)
	if i {
		if cfg.PidBits == 15 {
			b = append(b, 0x80|(byte(pid>>8)&0x7F), byte(pid))
		} else {
			b = append(b, byte(pid)&0x7F)
		}
	}
	if cfg.VP8L {
		b = append(b, tl0)
	}
	if t || cfg.VP8K {
		v := byte(0)
		if t {
			v |= tid << 6
			if y {
				v |= 0x20
			}
		}
		if cfg.VP8K {
			v |= keyidx & 0x1F
		}
		b = append(b, v)
	}
	return b
}

func vp9Desc(cfg *StreamCfg, start, end bool, pid uint16, tid, sid uint8, u, pbit, z bool, tl0 uint8) []byte {
	b0 := byte(0)
	if cfg.PidBits != 0 {
		b0 |= 0x80
	}
	if pbit {
		b0 |= 0x40
	}
	b0 |= 0x20 // L: layer indices always present so that tid/sid are visible
	if cfg.Flexible {
		b0 |= 0x10
	}
	if start {
		b0 |= 0x08
	}
	if end {
		b0 |= 0x04
	}
	if z {
		b0 |= 0x01
	}
	b := []byte{b0}
	if cfg.PidBits == 15 {
		b = append(b, 0x80|(byte(pid>>8)&0x7F), byte(pid))
	} else if cfg.PidBits == 7 {
		b = append(b, byte(pid)&0x7F)
	}
	l := tid<<5 | sid<<1
	if u {
		l |= 0x10
	}
	if sid > 0 {
		l |= 0x01 // D: inter-layer dependency
	}
	b = append(b, l)
	if !cfg.Flexible {
		b = append(b, tl0)
	} else if pbit {
		b = append(b, 1<<1) // one reference, P_DIFF = 1, N = 0
	}
	return b
}

// Generate builds the whole source stream.
func Generate(cfg *StreamCfg, r *rand.Rand) []*Pkt {
	var out []*Pkt
	ext := int64(cfg.StartSeq)
	pidMask := uint16(0)
	switch cfg.PidBits {
	case 7:
		pidMask = 0x7F
	case 15:
		pidMask = 0x7FFF
	}
	pid := cfg.StartPid & pidMask
	ts := cfg.StartTS
	frame := 0
	tl0 := uint8(r.UintN(256))
	keyidx := uint8(0)
	sl := 1
	if cfg.Codec == VP9 && cfg.SLayers > 1 {
		sl = cfg.SLayers
	}
	parts := cfg.VP8Parts == 2
	if cfg.Codec == VP8 && cfg.VP8Parts == 0 {
		parts = r.IntN(2) == 0
	}
	for pic := 0; pic < cfg.Pictures; pic++ {
		key := pic == 0 || (cfg.KeyEvery > 0 && pic%cfg.KeyEvery == 0) || (cfg.KeyProb > 0 && r.Float64() < cfg.KeyProb)
		var tid uint8
		if key || cfg.Codec == Opaque || (cfg.Codec == VP8 && cfg.VP8NoT) {
			tid = 0
		} else if cfg.TPattern != nil {
			tid = cfg.TPattern[pic%len(cfg.TPattern)]
		} else if cfg.TMax > 0 {
			tid = uint8(r.UintN(uint(cfg.TMax) + 1))
		}
		if tid == 0 {
			tl0++
		}
		if key {
			keyidx++
		}
		up := key || (tid > 0 && r.Float64() < cfg.UpSyncProb)
		for sid := 0; sid < sl; sid++ {
			n := 1 + r.IntN(max(1, cfg.MaxPktsPerFrame))
			z := cfg.Codec == VP9 && sid < sl-1 && r.Float64() < cfg.ZProb
			pbit := !(key && sid == 0) // inter-picture prediction used
			if cfg.Codec == VP9 && sid > 0 && key {
				pbit = false // upper layers of a key picture only use inter-layer prediction
			}
			for k := 0; k < n; k++ {
				p := &Pkt{Idx: len(out), Ext: ext, Pic: pic, Frame: frame, Tid: tid, Sid: uint8(sid), Pid: pid}
				p.Start = k == 0
				p.End = k == n-1
				p.Key = p.Start && key && sid == 0
				p.UpSync = up
				p.NonRef = z
				p.NoPred = !pbit
				p.Marker = p.End && sid == sl-1
				var desc []byte
				var hdr byte
				switch cfg.Codec {
				case VP8:
					part := uint8(0)
					if parts && k > 0 && r.IntN(2) == 0 {
						part = uint8(1 + r.IntN(7))
					}
					desc = vp8Desc(cfg, p.Start, part, pid, tid, up, false, tl0, keyidx)
					hdr = 0x01 | byte(r.UintN(128))<<1
					if key {
						hdr &^= 0x01
					}
				case VP9:
					desc = vp9Desc(cfg, p.Start, p.End, pid, tid, uint8(sid), up, pbit, z, tl0)
					hdr = 0x86 // frame marker 10, profile 0, frame_type 1
					if key && sid == 0 {
						hdr = 0x82
					}
				default:
					hdr = byte(r.UintN(256))
				}
				payload := append([]byte(nil), desc...)
				payload = append(payload, hdr)
				var id [4]byte
				binary.BigEndian.PutUint32(id[:], uint32(p.Idx))
				payload = append(payload, id[:]...)
				fill := 0
				if cfg.MaxFill > 0 {
					fill = r.IntN(cfg.MaxFill + 1)
				}
				if cfg.MaxTotal > 0 && r.IntN(8) == 0 {
					if f := cfg.MaxTotal - r.IntN(5) - 12 - 4*cfg.CSRCs - len(payload); f > 0 {
						fill = f
					}
				}
				for f := 0; f < fill; f++ {
					payload = append(payload, byte(r.UintN(256)))
				}
				h := rtp.Header{Version: 2, PayloadType: 96, SequenceNumber: p.Seqno(), Timestamp: ts, SSRC: 0x11223344, Marker: p.Marker}
				for c := 0; c < cfg.CSRCs; c++ {
					h.CSRC = append(h.CSRC, 0xC0000000+uint32(c))
				}
				raw, err := (&rtp.Packet{Header: h, Payload: payload}).Marshal()
				if err != nil {
					panic(err)
				}
				p.Bytes = raw
				out = append(out, p)
				ext++
			}
			frame++
		}
		if cfg.PidBits != 0 {
			pid = (pid + 1) & pidMask
		}
		ts += 3000
	}
	return out
}

// Parsed is what pion's independent depacketisers see in a packet.
type Parsed struct {
	Header  rtp.Header
	Payload []byte // RTP payload
	Body    []byte // codec payload after the descriptor
	Idx     int    // embedded unique id, -1 if unreadable
	HasPid  bool
	Pid     uint16
	PidBits int
	Tid     uint8
	Sid     uint8
	Start   bool
	End     bool // VP9 E bit
	PidOff  int  // offset of the picture-id field inside Payload, -1 if none
}

// Parse decodes raw with pion's RTP and VP8/VP9 depacketisers (independent of galene/codecs).
func Parse(codec Codec, raw []byte) (*Parsed, error) {
	var pk rtp.Packet
	if err := pk.Unmarshal(raw); err != nil {
		return nil, err
	}
	res := &Parsed{Header: pk.Header, Payload: pk.Payload, Idx: -1, PidOff: -1}
	switch codec {
	case VP8:
		var v pcodecs.VP8Packet
		if _, err := v.Unmarshal(pk.Payload); err != nil {
			return nil, err
		}
		res.Body = v.Payload
		res.Tid = v.TID
		res.Start = v.S == 1 && v.PID == 0
		if v.I == 1 {
			res.HasPid = true
			res.Pid = v.PictureID
			res.PidBits = 7
			if len(pk.Payload) > 2 && pk.Payload[2]&0x80 != 0 {
				res.PidBits = 15
			}
			res.PidOff = 2
		}
	case VP9:
		var v pcodecs.VP9Packet
		if _, err := v.Unmarshal(pk.Payload); err != nil {
			return nil, err
		}
		res.Body = v.Payload
		res.Tid = v.TID
		res.Sid = v.SID
		res.Start = v.B
		res.End = v.E
		if v.I {
			res.HasPid = true
			res.Pid = v.PictureID
			res.PidBits = 7
			if len(pk.Payload) > 1 && pk.Payload[1]&0x80 != 0 {
				res.PidBits = 15
			}
			res.PidOff = 1
		}
	default:
		res.Body = pk.Payload
		if len(res.Body) >= 5 {
			res.Idx = int(binary.BigEndian.Uint32(res.Body[1:5]))
		}
		return res, nil
	}
	if len(res.Body) >= 5 {
		res.Idx = int(binary.BigEndian.Uint32(res.Body[1:5]))
	}
	return res, nil
}

// SelfCheck verifies that pion sees in p what the generator intended (guards the harness itself).
func SelfCheck(codec Codec, p *Pkt) error {
	q, err := Parse(codec, p.Bytes)
	if err != nil {
		return fmt.Errorf("pion cannot parse generated packet %v: %v", p, err)
	}
	if q.Idx != p.Idx {
		return fmt.Errorf("id mismatch %d vs %v", q.Idx, p)
	}
	if codec != Opaque {
		if q.Tid != p.Tid || q.Sid != p.Sid || q.Start != p.Start {
			return fmt.Errorf("layer/flag mismatch: pion tid=%d sid=%d start=%v vs %v", q.Tid, q.Sid, q.Start, p)
		}
		if q.HasPid && q.Pid != p.Pid {
			return fmt.Errorf("pid mismatch: pion %d vs %v", q.Pid, p)
		}
	}
	if q.Header.SequenceNumber != p.Seqno() || q.Header.Marker != p.Marker {
		return fmt.Errorf("header mismatch vs %v", p)
	}
	return nil
}
