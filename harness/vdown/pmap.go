package vdown

import "math/rand/v2"

// Generated arrival histories for packetmap.Map with drop requests (shared by C01 and C03).

var ForcedStarts = []uint16{0, 1, 8191, 8192, 8193, 32767, 32768, 57343, 57344, 65535, 65533, 65280}

type Step struct {
	Idx  int  `json:"i"`
	Drop bool `json:"d,omitempty"` // the harness asked for a drop
}

type PureCase struct {
	Start uint16 `json:"start"`
	N     int    `json:"n"`
	Steps []Step `json:"steps"`
	NoPid bool   `json:"nopid,omitempty"` // a codec without picture ids: every call passes 0
}

// genPure generates an arrival history with drop requests.
func GenPure(r *rand.Rand, long bool) PureCase {
	c := PureCase{}
	if r.IntN(2) == 0 {
		c.Start = ForcedStarts[r.IntN(len(ForcedStarts))]
	} else {
		c.Start = uint16(r.UintN(65536))
	}
	n := 50 + r.IntN(600)
	if long {
		n = 66000 + r.IntN(8000)
	}
	c.N = n
	dropMode := r.IntN(5)
	if long {
		switch r.IntN(3) {
		case 0:
			dropMode = 5 // a few drops at the start, then a stable stretch longer than 2^15 / 2^16 packets
		case 1:
			// a few drops at the start, a quiet stretch, then again a few drops one full
			// sequence-number cycle later (their numbers alias into the intervals recorded
			// for the early ones, which the 128-entry table still holds), each followed by
			// later copies of the withheld packet
			dropMode = 6
			n = 65536 + 200 + r.IntN(3000)
			c.N = n
		}
	}
	dropP := []float64{0.05, 0.3, 0.5, 0.02, 0.15, 0, 0}[dropMode]
	lossP := []float64{0, 0.02, 0.1}[r.IntN(3)]
	dupP := []float64{0, 0.03, 0.15}[r.IntN(3)]
	reP := []float64{0, 0.05, 0.3}[r.IntN(3)]
	maxDelay := []int{2, 8, 40, 300}[r.IntN(4)]
	order := Schedule(n, DeliveryCfg{LossProb: lossP, DupProb: dupP, ReorderProb: reP, MaxDelay: maxDelay}, r)
	burst := 0
	for _, idx := range order {
		d := false
		switch dropMode {
		case 2: // alternating layers: every other packet group
			d = (idx/(1+int(c.Start)%3))%2 == 1
		case 5:
			d = idx < 4000 && idx%50 == 7
		case 6:
			d = (idx < 2000 || idx >= n-2500) && idx%50 == 7
		case 3: // long bursts, many delta changes to recycle the 128-entry ring
			if burst > 0 {
				burst--
				d = true
			} else if r.Float64() < 0.05 {
				burst = 1 + r.IntN(6)
			}
		default:
			d = r.Float64() < dropP
		}
		c.Steps = append(c.Steps, Step{idx, d})
	}
	if dropMode == 6 {
		// later copies of every packet a drop was requested for
		var out []Step
		pending := map[int][]Step{}
		for k, st := range c.Steps {
			out = append(out, st)
			out = append(out, pending[k]...)
			delete(pending, k)
			if st.Drop {
				at := k + 1 + r.IntN(12)
				pending[at] = append(pending[at], Step{st.Idx, r.IntN(2) == 0})
			}
		}
		c.Steps = out
	}
	return c
}

// GenPureCycle: exactly 2^16 packets withheld (every other one of an in-order stream without
// picture ids): the 16-bit count of withheld packets is back at 0 while intervals are
// recorded; then late copies of forwarded and of withheld packets.
func GenPureCycle(r *rand.Rand) PureCase {
	c := PureCase{NoPid: true}
	if r.IntN(2) == 0 {
		c.Start = ForcedStarts[r.IntN(len(ForcedStarts))]
	} else {
		c.Start = uint16(r.UintN(65536))
	}
	const cycle = 2 * 65536
	for i := 0; i < cycle; i++ {
		c.Steps = append(c.Steps, Step{i, i%2 == 1})
	}
	next := cycle
	for j := 0; j < 400; j++ {
		if r.IntN(3) == 0 {
			c.Steps = append(c.Steps, Step{next - 1 - r.IntN(200), r.IntN(4) == 0})
		} else {
			c.Steps = append(c.Steps, Step{next, false})
			next++
		}
	}
	c.N = next
	return c
}
