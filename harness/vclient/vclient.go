// Package vclient is a websocket client speaking galene's signalling protocol with an
// event recorder stamped from one process-wide logical clock.
package vclient

import (
	"encoding/json"
	"errors"
	"fmt"
	"sync"
	"sync/atomic"
	"time"

	"github.com/gorilla/websocket"

	"verif/harness/vsrv"
)

var clock atomic.Int64

// Tick returns the next value of the logical clock.
func Tick() int64 { return clock.Add(1) }

type Msg map[string]any

func (m Msg) Str(k string) string {
	s, _ := m[k].(string)
	return s
}

func (m Msg) StrList(k string) []string {
	a, _ := m[k].([]any)
	var out []string
	for _, x := range a {
		if s, ok := x.(string); ok {
			out = append(out, s)
		}
	}
	return out
}

type Event struct {
	Stamp int64
	M     Msg
}

type Client struct {
	Name string // harness-side label
	ID   string // protocol client id
	ws   *websocket.Conn

	wmu sync.Mutex // serialises writes

	mu       sync.Mutex
	cond     *sync.Cond
	events   []Event
	closed   bool
	closeErr error
	pongs    int
	OnMsg    func(Event) // optional synchronous observer (called from the reader goroutine)
}

// Dial connects, performs the handshake and starts the reader.
func Dial(s *vsrv.Server, id string) (*Client, error) {
	ws, err := s.DialWS()
	if err != nil {
		return nil, err
	}
	c := &Client{Name: id, ID: id, ws: ws}
	c.cond = sync.NewCond(&c.mu)
	go c.reader()
	if err := c.Send(Msg{"type": "handshake", "version": []string{"2"}, "id": id}); err != nil {
		return nil, err
	}
	if _, ok := c.WaitFor(func(m Msg) bool { return m.Str("type") == "handshake" }, 20*time.Second); !ok {
		c.Close()
		return nil, errors.New("no handshake from server")
	}
	return c, nil
}

// DialRaw connects without sending the handshake.
func DialRaw(s *vsrv.Server, name string) (*Client, error) {
	ws, err := s.DialWS()
	if err != nil {
		return nil, err
	}
	c := &Client{Name: name, ID: name, ws: ws}
	c.cond = sync.NewCond(&c.mu)
	go c.reader()
	return c, nil
}

func (c *Client) reader() {
	for {
		_, data, err := c.ws.ReadMessage()
		if err != nil {
			c.mu.Lock()
			c.closed = true
			c.closeErr = err
			c.cond.Broadcast()
			c.mu.Unlock()
			return
		}
		var m Msg
		if json.Unmarshal(data, &m) != nil {
			m = Msg{"type": "_unparsable", "raw": string(data)}
		}
		ev := Event{Stamp: Tick(), M: m}
		c.mu.Lock()
		if m.Str("type") == "pong" {
			c.pongs++
		}
		c.events = append(c.events, ev)
		cb := c.OnMsg
		c.cond.Broadcast()
		c.mu.Unlock()
		if m.Str("type") == "ping" {
			c.Send(Msg{"type": "pong"})
		}
		if cb != nil {
			cb(ev)
		}
	}
}

// Send writes one JSON message.
func (c *Client) Send(m Msg) error {
	c.wmu.Lock()
	defer c.wmu.Unlock()
	c.ws.SetWriteDeadline(time.Now().Add(20 * time.Second))
	return c.ws.WriteJSON(m)
}

// SendRaw writes a text frame verbatim.
func (c *Client) SendRaw(b []byte) error {
	c.wmu.Lock()
	defer c.wmu.Unlock()
	c.ws.SetWriteDeadline(time.Now().Add(20 * time.Second))
	return c.ws.WriteMessage(websocket.TextMessage, b)
}

// Events returns a copy of everything received so far.
func (c *Client) Events() []Event {
	c.mu.Lock()
	defer c.mu.Unlock()
	return append([]Event(nil), c.events...)
}

func (c *Client) EventCount() int {
	c.mu.Lock()
	defer c.mu.Unlock()
	return len(c.events)
}

// EventsFrom returns the events with index >= i.
func (c *Client) EventsFrom(i int) []Event {
	c.mu.Lock()
	defer c.mu.Unlock()
	if i > len(c.events) {
		i = len(c.events)
	}
	return append([]Event(nil), c.events[i:]...)
}

// Closed reports whether the server closed the connection (or it failed).
func (c *Client) Closed() (bool, error) {
	c.mu.Lock()
	defer c.mu.Unlock()
	return c.closed, c.closeErr
}

// WaitClosed waits up to d for the reader to notice that the connection is closed (a failed
// Send is often the first sign of a connection the server has just dropped).
func (c *Client) WaitClosed(d time.Duration) bool {
	deadline := time.Now().Add(d)
	for {
		if closed, _ := c.Closed(); closed {
			return true
		}
		if !time.Now().Before(deadline) {
			return false
		}
		time.Sleep(5 * time.Millisecond)
	}
}

// WaitFor blocks until a message satisfying pred has been received (searching from the
// start of the log), the connection closes, or the watchdog fires.
func (c *Client) WaitFor(pred func(Msg) bool, timeout time.Duration) (Msg, bool) {
	return c.WaitForFrom(0, pred, timeout)
}

func (c *Client) WaitForFrom(from int, pred func(Msg) bool, timeout time.Duration) (Msg, bool) {
	deadline := time.Now().Add(timeout)
	timer := time.AfterFunc(timeout, func() {
		c.mu.Lock()
		c.cond.Broadcast()
		c.mu.Unlock()
	})
	defer timer.Stop()
	c.mu.Lock()
	defer c.mu.Unlock()
	i := from
	for {
		for ; i < len(c.events); i++ {
			if pred(c.events[i].M) {
				return c.events[i].M, true
			}
		}
		if c.closed || !time.Now().Before(deadline) {
			return nil, false
		}
		c.cond.Wait()
	}
}

// Ping sends a ping and waits for the matching pong: everything the server wrote to
// this socket before answering has then been received.
func (c *Client) Ping(timeout time.Duration) bool {
	c.mu.Lock()
	want := c.pongs + 1
	c.mu.Unlock()
	if err := c.Send(Msg{"type": "ping"}); err != nil {
		return false
	}
	deadline := time.Now().Add(timeout)
	timer := time.AfterFunc(timeout, func() {
		c.mu.Lock()
		c.cond.Broadcast()
		c.mu.Unlock()
	})
	defer timer.Stop()
	c.mu.Lock()
	defer c.mu.Unlock()
	for c.pongs < want {
		if c.closed || !time.Now().Before(deadline) {
			return false
		}
		c.cond.Wait()
	}
	return true
}

// Close closes the socket abruptly (no leave message).
func (c *Client) Close() {
	c.ws.Close()
}

// Join sends a join with username/password and waits for the joined reply.
func (c *Client) Join(group, username, password string) (Msg, bool) {
	from := c.EventCount()
	m := Msg{"type": "join", "kind": "join", "group": group, "password": password}
	if username != "\x00none" {
		m["username"] = username
	}
	if err := c.Send(m); err != nil {
		return nil, false
	}
	return c.WaitForFrom(from, func(m Msg) bool {
		return m.Str("type") == "joined" && (m.Str("kind") == "join" || m.Str("kind") == "fail" || m.Str("kind") == "redirect")
	}, 30*time.Second)
}

// JoinToken joins with a token.
func (c *Client) JoinToken(group, username, tok string) (Msg, bool) {
	from := c.EventCount()
	m := Msg{"type": "join", "kind": "join", "group": group, "token": tok}
	if username != "\x00none" {
		m["username"] = username
	}
	if err := c.Send(m); err != nil {
		return nil, false
	}
	return c.WaitForFrom(from, func(m Msg) bool {
		return m.Str("type") == "joined" && (m.Str("kind") == "join" || m.Str("kind") == "fail" || m.Str("kind") == "redirect")
	}, 30*time.Second)
}

// Leave sends a leave and waits for the acknowledgement.
func (c *Client) Leave(group string) bool {
	from := c.EventCount()
	if err := c.Send(Msg{"type": "join", "kind": "leave", "group": group}); err != nil {
		return false
	}
	_, ok := c.WaitForFrom(from, func(m Msg) bool { return m.Str("type") == "joined" && m.Str("kind") == "leave" }, 30*time.Second)
	return ok
}

// Quiesce runs ping/pong barrier rounds over all live clients until `rounds` consecutive
// rounds delivered no new event to anyone.  It returns false if the watchdog fired.
func Quiesce(clients []*Client, rounds int, pause time.Duration, watchdog time.Duration) bool {
	deadline := time.Now().Add(watchdog)
	total := func() int {
		n := 0
		for _, c := range clients {
			c.mu.Lock()
			for _, e := range c.events {
				if t := e.M.Str("type"); t != "pong" {
					n++
				}
			}
			c.mu.Unlock()
		}
		return n
	}
	quiet := 0
	last := total()
	for quiet < rounds {
		if time.Now().After(deadline) {
			return false
		}
		for _, c := range clients {
			if closed, _ := c.Closed(); closed {
				continue
			}
			c.Ping(10 * time.Second)
		}
		time.Sleep(pause)
		now := total()
		if now == last {
			quiet++
		} else {
			quiet = 0
			last = now
		}
	}
	return true
}

func (c *Client) String() string { return fmt.Sprintf("client(%s)", c.ID) }
