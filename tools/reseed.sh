#!/bin/bash
# tools/reseed.sh [jobs]  - regression over all filed seeds: applies each seeded/<id>/patch.diff to a
# scratch copy of /repo and re-runs the check(s) that caught it (quick tier unless the entry's meta.json names another); prints one line per seed.
cd "$(dirname "$0")/.."
HERE=$(pwd)
J=${1:-3}
one() {
  id=$1
  props=$(python3 -c "
import json
m=json.load(open('$HERE/seeded/$id/meta.json'))
print(' '.join(c['property'] for c in m['checks_run'] if c['exit']==1))")
  W=$(mktemp -d /tmp/rs-$id-XXXX)
  rsync -a --exclude .git /repo/ "$W/"
  ( cd "$W" && patch -p1 -s < "$HERE/seeded/$id/patch.diff" ) || { echo "$id PATCH-FAILED"; rm -rf "$W"; return; }
  res=""
  caught=0
  for p in $props; do
    tier=$(python3 -c "
import json
m=json.load(open('$HERE/seeded/$id/meta.json'))
print(next((c.get('tier','quick') for c in m['checks_run'] if c['exit']==1 and c['property']=='$p'),'quick'))")
    out=$(REPO_DIR="$W" VERIF_TIER=$tier "$HERE/check" "$p" 2>&1); rc=$?
    k=$(echo "$out" | grep -E '^\s+key=' | head -1 | sed 's/^ *key=//' | cut -c1-60)
    res="$res $p:rc=$rc($k)"
    [ $rc -eq 1 ] && caught=1
  done
  if [ $caught -eq 1 ]; then echo "$id caught $res"; else echo "$id MISSED $res"; fi
  rm -rf "$W"
}
export -f one
export HERE
ls seeded | xargs -P "$J" -I{} bash -c 'one {}'
echo RESEED-DONE
