#!/usr/bin/env python3
"""Regenerates /verif/MANIFEST.json from the table below (kept valid at all times)."""
import json, os, sys
HERE = os.path.dirname(os.path.dirname(os.path.abspath(__file__)))
ALL = ["C%02d" % i for i in range(1, 21)]

# property -> (category, technique, level text, level note, design ref)
CHECKS = {
 "C01": ("exploration", "reference-model monitor (withheld-count formula) over generated + small-scope-exhaustive packetmap histories and over the real rtpDownTrack.Write",
   "Every output of packetmap.Map (public API) and of the real forwarding path is compared with seqno minus the number of earlier withheld packets, with 'withheld' observed, over generated arrival histories (loss, duplicates, reordering, wrap, >66000-packet streams, exactly 2^16 withheld packets) and ALL histories up to a small depth over an 8-letter alphabet. Held on the executions observed.",
   "Quantifier restricted to the 8192-packet window as the property states; exhaustive only for the stated small sub-space; direct-drive uses the verif shim (no logic) and a capturing write stream; an end-to-end tier checks what real early and late subscriber PeerConnections receive against the server's own record of withheld packets (verif trace point at the successful packetmap.Drop): numbers differ by the source distance minus the withheld packets in between, a withheld packet is never received, copies keep their number; packets lost in transit keep their gap.", "5/C01"),
 "C02": ("exploration", "input/output packet diff with pion's independent depacketisers at the down track's write stream + end-to-end diff at real SRTP subscribers against the server's trace of withheld frames",
   "Every forwarded packet is diffed field by field against its source packet (length up to the server's 1504-byte buffers, timestamp, header, payload outside the picture-id field), markers only ever set on the last packet of a frame of the selected spatial layer, VP8 picture ids equal source id minus wholly withheld frames (7/15 bit, wrap); the same comparison at real pion subscribers (incl. a late joiner, REMB-driven drops, 15-bit id wrap, source packets with header extension and padding) of a real server. Held on the executions observed.",
   "In-order arrival for the picture-id clause (the property's scope); SSRC/PT compared against the binding.", "5/C02"),
 "C03": ("exploration", "log-against-log monitor: first transmissions vs responses to injected NACKs through the real gotNACK; Reverse/Map agreement on the public API",
   "Responses to 7 kinds of NACK sets must be byte-identical to the first transmission under the same number or absent; numbers never sent are never answered; withheld packets never resent. Held on the executions observed; one open known finding (marker recomputed after a spatial switch).",
   "The publisher cache is a real packetcache.Cache filled as the receive loop does; non-vacuity floors on answered NACKs; an end-to-end tier sends NACKs from a real subscriber PeerConnection (no interceptors, replay protection off) and compares the copies it receives.", "5/C03"),
 "C04": ("exploration", "state-machine monitor over the sampled layer word before/after every Write, sequential and concurrent feedback + end-to-end layer-bound monitor (forwarded / withheld evidence at real subscribers)",
   "The property's switching rules are evaluated on every Write of generated VP8/VP9 streams interleaved with REMB/RR/stale/limit events through the real adjustLayer/updateRate; concurrent writer+feedback histories check that the selection never moves between Writes; loss ceiling bounds after any report sequence; end to end, generated VP9 SVC and VP8 temporal streams go through a real server (half of the SVC publishers with a microphone in the same stream) to pion subscribers that request video / video-low, change the request midway and send REMB phases: bounds on the selected layer derived from in-order forwarded packets and from the server's record of withheld ones never cross inside a picture, between keyframes (spatial), inside a frame or without a switch point (temporal), and a video-low receiver gets nothing above spatial layer 0 after the next keyframe. Held on the executions observed.",
   "limitSid is set through a 5-line shim copy of replaceTracks' setter; concurrency clause is schedule-dependent (what was observed is reported).", "5/C04"),
 "C05": ("exploration", "reference-model monitor over generated call histories + race detector on concurrent readers",
   "Runs the real packetcache.Cache under generated Store/Get/GetAt/Resize/ResizeCond histories (all seqno orders, sizes 1..1504, capacities 1..65535) with a reference model as oracle, then 1 writer + 1 resizer + 14 self-validating readers under -race. Held on the executions observed; not a proof.",
   "Trusts the Go race detector and the harness model; timestamp/marker words are only observable as part of the stored packet bytes.", "5/C05"),
 "C08": ("exploration", "reference model of galene.md's login rules over descriptions parsed by the real loader + subprocess round trip through the real galenectl",
   "Generated group descriptions (20 password encodings incl. malformed, roles/raw arrays, obsolete format, recording/token flags) x credentials (right, near-miss, unknown user) are judged by an independent model (own pbkdf2/bcrypt); records printed by the real galenectl binary must verify and reject near misses; history tier: after random moderation actions by an operator on other members of a real server, fresh logins of every entry are granted exactly the configured set, and a password the administrator replaced through the API by one of the same length (live group) is refused at once. Held on the executions observed.",
   "'For no other password' is read modulo the declared hash function (HMAC zero padding, bcrypt 72-byte limit are the algorithm's verdict, counted not judged).", "5/C08"),
 "C09": ("exploration", "oracle by construction: harness-issued stateful tokens and JWTs with exactly one known perturbation each",
   "Tokens whose validity is known by construction (scope over path alphabets, time offsets >= 120 s, HS256/384/512, ES256, RS256, kid/no kid, alg none / confusion, audience host and path variants) through token.Parse().Check and Description.GetPermission, under four loadable server configurations and four that do not load (nothing invalid may be accepted meanwhile). Held on the executions observed.",
   "Time offsets never closer than 120 s to a boundary; harness signs with its own crypto code.", "5/C09"),

 "C06": ("exploration", "receive-loop mirror over the real packetcache with generator-derived ground truth (cache tier)",
   "The harness plays the receive loop (Store, trigger rule, BitmapGet, Expect) against the real cache on generated arrival histories (loss, duplicates, reordering <= 256, wrap, restarts) and checks every NACK against its own record of what arrived (never names a received packet, never at/beyond the newest, at most once, steady losses are named), statistics self-consistency at every sample/reset point, and ToBitmap exactness. Held on the executions observed.",
   "The liveness clause is asserted only for steady histories whose generator guarantees the preconditions; the receive-loop tier runs the real readLoop/nackWriter/sendUpRTCP over real PeerConnections, ordered by three verif trace points in rtpconn and cross-checked with the NACKs the publisher receives.", "5/C06"),
 "C10": ("exploration", "linearizability checking (porcupine) of recorded AddClient/DelClient/SetLocked/read histories against a sequential admission model, with lock-site schedule perturbation, under -race (second pass with a monitor-free perturbation-only mutex wrapper, so that the lock monitor's own synchronisation does not hide races)",
   "Short concurrent histories on one group per history, all configurations of max-clients x autolock x autokick x time window, a quarter of them with the description file made unreadable and repaired during the history (description reload with a fault), recorded at the call boundary (queries look the group up inside the recorded operation) and checked against the admission model; direct invariants (non-operators never exceed max-clients; a refused client is announced to nobody). Held on the schedules observed.",
   "Schedules are sampled, not enumerated (perturbation 0-90 % at every instrumented lock operation; the registry phase times each joiner to the moment its own group becomes expirable and holds it for up to 3 ms between registry lookup and insertion); lock changes are issued only by threads holding a joined operator, as the protocol requires.", "5/C10"),
 "C11": ("exploration", "effect-at-other-parties monitor over recorded websocket/HTTP event logs: 24 privileged message kinds x membership states x permission sets against the real server, with a FIFO action-queue barrier for logical quiescence",
   "Every privileged message kind (chat, captions, user messages, op/unop/present/unpresent/shutup/unshutup, kick, identify, lock/unlock, clearchat, setdata, subgroups, record/unrecord, maketoken/edittoken/listtokens, offer) is sent in every membership state (never joined, eight kinds of refused join, joined, left, kicked) under 20 permission sets, one fresh group per case; its effect is read at the OTHER parties (nonce at an observer, joined/user change at the target and all members, kicked + socket closed, probe joins after lock, RECORDING member, token store) and must appear iff the required permission is held; a refusal leaves every other party with no new event; token delegation (never more than held, own group, expiry), cross-group token edits/listing, revocation followed by retries (incl. bursts racing the revocation), WHIP over HTTP with wrong/missing bearer, and random 15-step sequences against a membership/permission model. Held on the cases run.",
   "Watchdogs (90 s) never produce a violation: interrupted scenarios are counted as undecided, more than 2 + 0.1 % of them makes the run inconclusive. includeSubgroups (ignored by the parser) and the 404 for an unknown WHIP bearer are accepted as refusals.", "5/C11"),
 "C13": ("exploration", "Go race detector + instrumented-mutex wait-for/lock-order monitor + exactly-once/FIFO/lost-wakeup checker over unbounded.Channel",
   "Child processes run fake-client storms on the group API (with expiry sweeps racing joins to idle groups), real websocket clients with statistics pollers and members that change their data all the time, real PeerConnections published, recorded (operator toggles the real recorder) and torn down, WHIP sessions over HTTP torn down while a member keeps changing its request, WHIP and recording clients joining/closing/kicked (also out of an autokick group when its last operator leaves), shutdown with every member kind, and producers vs galene's queue consumption pattern, under -race and with perturbation at every lock operation; every other repetition runs from a binary with a monitor-free mutex wrapper (the lock monitor's own synchronisation would hide races); race reports in the property's anchor files and actual wait-for cycles are violations. Held on the schedules observed.",
   "Deadlocks on channels/I-O are outside the wait-for graph (watchdog => inconclusive); 'eventually seen' restated as queue empty at quiescence.", "5/C13"),
 "C14": ("exploration", "event-fold monitor: each client's user list folded from add/change/delete vs Group.GetClients at logical quiescence",
   "Real server in a child process, 4-12 websocket clients over 3 groups, 3 concurrent drivers issuing random membership/moderation/setdata actions, joins to a redirecting group, leave/rejoin storms across two groups (pipelined leave+join, residents changing their data all the time), and description files made unreadable for a moment while a stranger tries to join; at check points (ping/pong barrier quiescence) every client's folded view must equal the true membership (ids, usernames, permissions, data); duplicate adds, events that are certainly about another group, phantom and missing members are violations (stale deletes/changes for a client back in a group of the same name are ignored, as a client would). Held on the executions observed.",
   "Convergence is bounded progress: a scenario whose quiescence watchdog (30 s) fires is abandoned without a verdict; more than a few of them make the run inconclusive.", "5/C14"),

 "C07": ("exploration", "reference-model monitor over signalling events of real PeerConnections (offers' msid media sections, close/abort) at logical quiescence points",
   "Real server in a child process; clients with real pion PeerConnections publish audio / video / audio+video / audio+two-video streams (first packets sent track by track) and subscribe with random request maps, per-stream requests, aborts, replacements (also chains X->Y->Z inside the 200 ms push delay, with and without media on Y), slow answerers (250-450 ms) with late second video tracks and requests changed while an offer is outstanding, an operator's unpresent racing with the publisher's own fresh and replacing offers, leaves, disconnects, kicks and unpresent; after every step each (subscriber, stream) pair is compared with the model of the property text; every offer's source/username/label is checked, closes must be justified and must reach everyone. Held on the executions observed.",
   "rid-based simulcast publishers are not generated; per-stream requests and aborts are modelled as lasting until the next push (documented in the evidence assumptions).", "5/C07"),

 "C17": ("exploration", "request-matrix monitor: status / byte-level snapshots / sentinel and marker scanning of every response, plus a preservation model over authorised update sequences",
   "7 methods x 42 endpoint shapes x 39 credential kinds per target group against the real server in a child process: insufficient credentials must get 401 (404 where the path does not exist) with the groups directory and token file byte-identical and no planted marker in the response; no response ever contains a planted secret sentinel; random sequences of authorised updates are compared item by item with a model of what each request addresses, a quarter of them against a group that is live in the server (cached description), with the replaced password of a group administrator probed after every accepted change. Held on the requests issued.",
   "Secrets and group data are recognised by planted unique strings; a few shapes are counted but not judged (listed in the evidence assumptions).", "5/C17"),

 "C15": ("exploration", "nonce-tagged message log vs every client's received chat/usermessage/chathistory at logical quiescence",
   "Real server in a child process; every sent message carries a unique nonce; at each quiescence point authenticity (source/username), the privileged flag, exact delivery sets for broadcast / addressed / bad-destination / spoofed / unpermitted messages, socket closure of spoofers, and the replayed history (<= 50 entries, order, clearchat variants, age) are judged against the sender-side log. Held on the executions observed.",
   "Permission-dependent clauses are asserted only in epochs where the sender's permissions did not change; history age asserted only beyond 3.5 s / below 0.5 s with max-history-age 2 s.", "5/C15"),
 "C19": ("exploration", "syscall monitor (strace -f -y) of the real server with a sentinel tree around its directories + validator agreement on generated strings",
   "The server runs under strace while hostile names (.., //, backslash, %-encodings, NUL, symlink components) are used as group name, username (in the join message, inside a stateful token, as the sub of a signed JWT), token group, URL paths, recording path, static path and delete-form filename (raw hand-written HTTP); recordings of hostile usernames, also four connections of one user at the same instant (numbered fallback names); every file syscall is attributed to one input and resolved (lexically, through live symlinks, and by the returned fd): writes/unlinks/renames must stay inside the roots, no sentinel may be touched, served or modified, what the delete form removes lies directly in the group's own recording directory; validGroupName/validUsername/parseGroupName/sanitise are compared with a reference predicate on 10^5-10^7 strings. Held on the inputs tried; four open known findings rooted in os.Root of the pinned go1.24.0.",
   "Operator-placed symlinks inside the groups directory are observed, not judged (lexical confinement); system reads are allow-listed from a benign baseline run.", "5/C19"),
 "C20": ("exploration", "ground-truth frame list vs the produced WebM/Matroska file parsed with an independent EBML reader; root-cause attribution with a stand-alone copy of the pinned sample builder",
   "The real diskwriter is driven through conn.Up/UpTrack (no hooks) with hash-identified Opus/VP8/VP9/H264 frames under delivery histories (reordering, duplicates, gaps the cache can or cannot fill, seqno and timestamp wrap, sender reports at any point); every block must be byte-identical to a sent frame, unique, ordered, with non-decreasing timecodes, complete from the first keyframe when everything is recoverable, in a well-formed container that is closed on stop/departure; an end-to-end tier records a real pion publisher (multi-packet VP8 + Opus, seqno/timestamp wraps, four ways of ending, camera added after 'record') through the real server. Held on the sessions run; open known findings: four in the pinned jech/samplebuilder dependency (one of them kills the server), three in diskwriter's time origin handling.",
   "Violations are keyed by root cause; a samplebuilder key is given only if a repaired builder on the same packets yields a clean track and the trigger fired.", "5/C20"),

 "C16": ("fault_enumeration", "syscall-level crash and error enumeration with strace (SIGKILL / EIO / ENOSPC at every file syscall of one token operation) + fresh-process reload equivalence + unique-id append histories under -race",
   "After every step of library, websocket and HTTP token histories (with external file edits) a fresh process must read what the live process honours, and revoked tokens never authorise again; concurrent conditional appenders/deleters: acknowledged appends present once in acknowledgement order, refused ones absent, stale tags refused; constant-size versions (differing in modification time only): acknowledged conditional updates form one chain; signalling edittoken commands racing with HTTP token changes: a refused edit has no effect on what the running server honours; every file syscall of 8 operation shapes is killed on entry (old or new set, never partial) and failed with EIO/ENOSPC (live view == fresh view). Held on the histories, schedules and crash points enumerated.",
   "Process interruption at syscall granularity only: power loss (page cache loss, write reordering) is out of reach; constant-size writers replace a version only when it is 25 ms old (new inodes are stamped from the kernel's coarse clock), so that successive versions differ in modification time as the property presupposes.", "5/C16"),
 "C18": ("fault_enumeration", "racing conditional HTTP writers with unique-id appends + precondition header generator + concurrent file reader + strace crash/error enumeration of rewriteDescriptionFile",
   "K concurrent GET/PUT-If-Match writers per object against the real server: acknowledged appends present once, refused absent, at most one success per tag, one tag never served with two bodies, constant-size versions form one chain of acknowledged updates, exactly one winner for If-None-Match:* creation, stale deletes refused; generated If-Match/If-None-Match values, alone and combined in one request, against a restricted RFC 7232 reading (HTTP and the etagMatch shim); a plain reader decodes the group file continuously while it is rewritten; every file syscall of 11 library update shapes is killed on entry / failed with EIO, ENOSPC: a fresh process sees old or new, never partial. Held on the schedules and crash points enumerated.",
   "Process interruption at syscall granularity only; only the clear precondition cases are asserted; constant-size writers pace themselves (25 ms) so that versions differ in modification time.", "5/C18"),

 "C12": ("exploration", "canary-arena parser fuzzing with recover() + grammar-based hostile websocket / HTTP / RTP workloads against the real server in child processes with liveness canaries and crash signatures",
   "(A) 2.5M-126M generated inputs per run into Keyframe, KeyframeDimensions, PacketFlags, RewritePacket and sdpfrag inside canary-filled arenas: no panic, length unchanged, canaries and foreign bytes intact. (B) every signalling message type x field mutation x 23 membership states (incl. 13 kinds of refused join, pipelined, concurrent), raw frames; (C) 31 path shapes x 9 methods x credentials x bodies, a third hand-written on a raw connection, every malformed entity-tag list in both precondition headers on every shape, WHIP session lives; (D) real SRTP sessions with hostile payloads of every codec and a publisher offering only an H.264 profile the group does not list: after each batch a canary client, a fresh join and a bystander are still served, every request got a status line, the server log has no recovered handler panic. Held on the inputs tried.",
   "Load sensitivity of galene's 500 ms write deadline is handled by retrying state set-ups and re-checking bystander losses in a fresh state (recorded as an assumption).", "5/C12"),
}

NOT_YET = "check not built yet in this session (work in progress, see DESIGN.md section 9)"

def main():
    checks = []
    for p in ALL:
        if p not in CHECKS:
            continue
        cat, tech, text, note, ref = CHECKS[p]
        checks.append({
            "property_id": p,
            "quick_cmd": "./check %s --tier quick" % p,
            "thorough_cmd": "./check %s --tier thorough" % p,
            "evidence_file": "evidence/%s.json" % p,
            "replay_cmd_template": "./check %s --replay {path}" % p,
            "engine": "vharness",
            "level_claimed": {"category": cat, "text": text, "design_ref": "DESIGN.md section " + ref},
            "level_note": note,
            "technique": tech,
        })
    hooks_file = os.path.join(HERE, "hooks_commits.txt")
    commits = [l.strip() for l in open(hooks_file)] if os.path.exists(hooks_file) else []
    m = {
        "version": 1,
        "setup_cmd": "./setup.sh",
        "hooks": {
            "guard": "verif",
            "enable": "go build -tags verif (./check builds a scratch copy of /repo's working tree with the tag on)",
            "baseline_off_cmd": "cd /repo && GOFLAGS=-mod=mod go test -vet=off -count=1 -timeout 25m ./...",
            "source_commits": [c for c in commits if c],
            "add_only": True,
        },
        "engines": [{
            "name": "vharness", "path": "harness/",
            "serves_properties": sorted(CHECKS),
            "kind_free_text": "runtime monitoring: Go monitors over the real packages (reference models, recorded-history checkers incl. porcupine), Go race detector, instrumented-mutex lock monitor, strace-based syscall fault enumeration",
        }],
        "checks": checks,
        "not_applicable": [{"property_id": p, "reason": NOT_YET} for p in ALL if p not in CHECKS],
        "notes": "All checks: ./check Cxx --tier quick|thorough; exit 0 held / 1 VIOLATION / 2 inconclusive. Known findings: known_findings.txt.",
    }
    json.dump(m, open(os.path.join(HERE, "MANIFEST.json"), "w"), indent=1)
    print("MANIFEST.json:", len(checks), "checks,", len(m["not_applicable"]), "not_applicable")

main()
