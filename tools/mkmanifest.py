#!/usr/bin/env python3
"""Regenerates /verif/MANIFEST.json from the table below (kept valid at all times)."""
import json, os, sys
HERE = os.path.dirname(os.path.dirname(os.path.abspath(__file__)))
ALL = ["C%02d" % i for i in range(1, 21)]

# property -> (category, technique, level text, level note, design ref)
CHECKS = {
 "C05": ("exploration", "reference-model monitor over generated call histories + race detector on concurrent readers",
   "Runs the real packetcache.Cache under generated Store/Get/GetAt/Resize/ResizeCond histories (all seqno orders, sizes 1..1504, capacities 1..65535) with a reference model as oracle, then 1 writer + 1 resizer + 14 self-validating readers under -race. Held on the executions observed; not a proof.",
   "Trusts the Go race detector and the harness model; timestamp/marker words are only observable as part of the stored packet bytes.", "5/C05"),
}

NOT_YET = "check not built yet in this session (work in progress, see DESIGN.md section 9)"

def main():
    checks = []
    for p in ALL:
        if p not in CHECKS:
            continue
        cat, tech, text, note, ref = CHECKS[p]
        checks.append({
            "property_id": p,
            "quick_cmd": "./check %s --tier quick" % p,
            "thorough_cmd": "./check %s --tier thorough" % p,
            "evidence_file": "evidence/%s.json" % p,
            "replay_cmd_template": "./check %s --replay {path}" % p,
            "engine": "vharness",
            "level_claimed": {"category": cat, "text": text, "design_ref": "DESIGN.md section " + ref},
            "level_note": note,
            "technique": tech,
        })
    hooks_file = os.path.join(HERE, "hooks_commits.txt")
    commits = [l.strip() for l in open(hooks_file)] if os.path.exists(hooks_file) else []
    m = {
        "version": 1,
        "setup_cmd": "./setup.sh",
        "hooks": {
            "guard": "verif",
            "enable": "go build -tags verif (./check builds a scratch copy of /repo's working tree with the tag on)",
            "baseline_off_cmd": "cd /repo && GOFLAGS=-mod=mod go test -vet=off -count=1 -timeout 25m ./...",
            "source_commits": [c for c in commits if c],
            "add_only": True,
        },
        "engines": [{
            "name": "vharness", "path": "harness/",
            "serves_properties": sorted(CHECKS),
            "kind_free_text": "runtime monitoring: Go monitors over the real packages (reference models, recorded-history checkers incl. porcupine), Go race detector, instrumented-mutex lock monitor, strace-based syscall fault enumeration",
        }],
        "checks": checks,
        "not_applicable": [{"property_id": p, "reason": NOT_YET} for p in ALL if p not in CHECKS],
        "notes": "All checks: ./check Cxx --tier quick|thorough; exit 0 held / 1 VIOLATION / 2 inconclusive. Known findings: known_findings.txt.",
    }
    json.dump(m, open(os.path.join(HERE, "MANIFEST.json"), "w"), indent=1)
    print("MANIFEST.json:", len(checks), "checks,", len(m["not_applicable"]), "not_applicable")

main()
