module verif/vinstr

go 1.24.0
