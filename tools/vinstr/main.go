package main

import (
	"bytes"
	"fmt"
	"go/ast"
	"go/format"
	"go/parser"
	"go/token"
	"os"
	"path/filepath"
	"strconv"
	"strings"
)

// usage: vinstr <module root> <pkgdir>...
func main() {
	root := os.Args[1]
	n := 0
	for _, pkg := range os.Args[2:] {
		dir := filepath.Join(root, pkg)
		ents, _ := os.ReadDir(dir)
		var classes []string
		pkgname := ""
		for _, e := range ents {
			name := e.Name()
			if !strings.HasSuffix(name, ".go") || strings.HasSuffix(name, "_test.go") {
				continue
			}
			path := filepath.Join(dir, name)
			fset := token.NewFileSet()
			f, err := parser.ParseFile(fset, path, nil, parser.ParseComments)
			if err != nil {
				panic(err)
			}
			pkgname = f.Name.Name
			changed := false
			clsBase := len(classes)
			_ = clsBase
			// name every struct-typed declaration so that a lock class reads pkg.Type.field
			owner := map[*ast.StructType]string{}
			ast.Inspect(f, func(nd ast.Node) bool {
				switch d := nd.(type) {
				case *ast.TypeSpec:
					if st, ok := d.Type.(*ast.StructType); ok {
						owner[st] = d.Name.Name
					}
				case *ast.ValueSpec:
					if st, ok := d.Type.(*ast.StructType); ok && len(d.Names) > 0 {
						owner[st] = d.Names[0].Name
					}
				}
				return true
			})
			ast.Inspect(f, func(nd ast.Node) bool {
				st, ok := nd.(*ast.StructType)
				if !ok || st.Fields == nil {
					return true
				}
				for _, fld := range st.Fields.List {
					sel, ok := fld.Type.(*ast.SelectorExpr)
					if !ok {
						continue
					}
					x, ok := sel.X.(*ast.Ident)
					if !ok || x.Name != "sync" || sel.Sel.Name != "Mutex" {
						continue
					}
					fname := "embedded"
					if len(fld.Names) > 0 {
						fname = fld.Names[0].Name
					}
					tname := owner[st]
					if tname == "" {
						tname = fmt.Sprintf("anon%d", fset.Position(st.Pos()).Line)
					}
					cls := fmt.Sprintf("vsyncC%d", len(classes))
					classes = append(classes, fmt.Sprintf("%s.%s.%s", pkgname, tname, fname))
					fld.Type = &ast.IndexExpr{
						X:     &ast.SelectorExpr{X: ast.NewIdent("vsync"), Sel: ast.NewIdent("Mutex")},
						Index: ast.NewIdent(cls),
					}
					changed = true
					n++
				}
				return true
			})
			if !changed {
				continue
			}
			// does the file still use sync.?
			uses := false
			ast.Inspect(f, func(nd ast.Node) bool {
				if sel, ok := nd.(*ast.SelectorExpr); ok {
					if x, ok := sel.X.(*ast.Ident); ok && x.Name == "sync" && x.Obj == nil {
						uses = true
					}
				}
				return true
			})
			for _, d := range f.Decls {
				gd, ok := d.(*ast.GenDecl)
				if !ok || gd.Tok != token.IMPORT {
					continue
				}
				var specs []ast.Spec
				for _, s := range gd.Specs {
					is := s.(*ast.ImportSpec)
					if is.Path.Value == `"sync"` && !uses {
						continue
					}
					specs = append(specs, s)
				}
				specs = append(specs, &ast.ImportSpec{Path: &ast.BasicLit{Kind: token.STRING, Value: strconv.Quote("github.com/jech/galene/vsync")}})
				gd.Specs = specs
				if gd.Lparen == token.NoPos {
					gd.Lparen = gd.Pos()
					gd.Rparen = gd.End()
				}
				break
			}
			var buf bytes.Buffer
			if err := format.Node(&buf, fset, f); err != nil {
				panic(err)
			}
			os.WriteFile(path, buf.Bytes(), 0644)
		}
		if len(classes) > 0 {
			var b strings.Builder
			fmt.Fprintf(&b, "package %s\n\n", pkgname)
			for i, c := range classes {
				fmt.Fprintf(&b, "type vsyncC%d struct{}\n\nfunc (vsyncC%d) VsyncClass() string { return %q }\n\n", i, i, c)
			}
			os.WriteFile(filepath.Join(dir, "zz_vsync_classes.go"), []byte(b.String()), 0644)
		}
	}
	fmt.Println("rewrote", n, "mutex declarations")
}
