#!/bin/bash
# tools/seedtest.sh <seed output dir> <seed id> <property> [more properties...]
# Confirms an independently written breaking change (builds, existing suite green,
# demonstration passes without / fails with the change), runs the registered check(s)
# against a scratch copy carrying the change, and files everything under seeded/<id>/.
set -u
HERE=$(cd "$(dirname "$0")/.." && pwd)
. "$HERE/lib/common.sh"
OUT=$1; ID=$2; shift 2; PROPS="$*"
W=$(mktemp -d /tmp/st-$ID-XXXX)
trap 'rm -rf "$W"' EXIT
rsync -a --exclude .git "$REPO_DIR/" "$W/"
DEST="$HERE/seeded/$ID"; mkdir -p "$DEST"
cp "$OUT/patch.diff" "$DEST/patch.diff"
[ -f "$OUT/README.md" ] && cp "$OUT/README.md" "$DEST/README.md"
demos=$(ls "$OUT" | grep -E '_test\.go$' || true)
pkgdir=""
for d in $demos; do
  pkg=$(grep -m1 '^package ' "$OUT/$d" | awk '{print $2}' | sed 's/_test$//')
  pkgdir=$(cd "$W" && ls -d */ | tr -d / | grep -x "$pkg" | head -1)
  [ "$pkg" = main ] && pkgdir=galenectl
  [ -z "$pkgdir" ] && pkgdir=$pkg
  cp "$OUT/$d" "$DEST/$d"
done
demo_run() { # runs the demonstration tests; prints PASS/FAIL
  for d in $demos; do cp "$OUT/$d" "$W/$pkgdir/$d"; done
  names=$(grep -ho '^func Test[A-Za-z0-9_]*' $(for d in $demos; do echo "$OUT/$d"; done) | sed 's/func //' | paste -sd'|')
  (cd "$W" && "$VGO" test -vet=off -count=1 -run "^($names)\$" "./$pkgdir/" > "$W/demo.log" 2>&1); r=$?
  for d in $demos; do rm -f "$W/$pkgdir/$d"; done
  return $r
}
res_demo_without="n/a"; res_demo_with="n/a"
if [ -n "$demos" ]; then
  if demo_run; then res_demo_without=PASS; else res_demo_without=FAIL; cp "$W/demo.log" "$DEST/demo_without.log"; fi
fi
( cd "$W" && patch -p1 -s < "$OUT/patch.diff" ) || { echo "$ID: patch does not apply"; echo "{\"id\":\"$ID\",\"status\":\"patch-does-not-apply\"}" > "$DEST/meta.json"; exit 1; }
( cd "$W" && "$VGO" build ./... && "$VGO" build -tags verif ./... ) > "$W/build.log" 2>&1 && res_build=ok || res_build=FAILED
( cd "$W" && "$VGO" test -vet=off -count=1 ./... ) > "$W/suite.log" 2>&1
failed=$(grep -E '^(--- FAIL|FAIL)' "$W/suite.log" | grep -v rtptime | grep -v "FAIL: TestTime" | grep -v '^FAIL$' | head -5)
[ -z "$failed" ] && res_suite=green || res_suite="RED: $(echo $failed | cut -c1-200)"
if [ -n "$demos" ]; then
  if demo_run; then res_demo_with=PASS; else res_demo_with=FAIL; tail -n 25 "$W/demo.log" > "$DEST/demo_with.log"; fi
fi
checks=""
for p in $PROPS; do
  out=$(cd "$HERE" && REPO_DIR="$W" ./check "$p" 2>&1); rc=$?
  keys=$(echo "$out" | grep -E '^\s+key=' | sed 's/^ *key=//' | sort -u | head -6 | paste -sd';' | cut -c1-500)
  [ -z "$keys" ] && keys=$(echo "$out" | grep -E 'INCONCLUSIVE' | head -2 | paste -sd';' | cut -c1-300)
  checks="$checks{\"property\":\"$p\",\"exit\":$rc,\"keys\":$(python3 -c 'import json,sys; print(json.dumps(sys.argv[1]))' "$keys")},"
  echo "$ID: ./check $p -> exit $rc  $keys"
done
python3 - "$DEST/meta.json" "$ID" "$res_build" "$res_suite" "$res_demo_without" "$res_demo_with" "[${checks%,}]" "$PROPS" <<'PY'
import json,sys,datetime
path,id_,build,suite,dwo,dw,checks,props=sys.argv[1:9]
meta={"id":id_,"breaks_property":props.split()[0],"build":build,"existing_suite_with_change":suite,
 "demonstration_without_change":dwo,"demonstration_with_change":dw,"checks_run":json.loads(checks),
 "what_i_ran":"tools/seedtest.sh: rsync of /repo + patch.diff in a scratch copy; go build ./... (also -tags verif); go test ./...; the demonstration test before and after the patch; REPO_DIR=<copy> ./check <property> (quick tier)",
 "needs_to_manifest":"see README.md (written by the independent agent that produced the change)",
 "date":datetime.date.today().isoformat()}
json.dump(meta,open(path,"w"),indent=1)
print(id_, "build",build,"| suite",suite,"| demo without/with:",dwo,"/",dw)
PY
