#!/bin/bash
# tools/sweep.sh "<props>" "<seeds>" [tier]  - runs checks over seeds, prints one line per run and every non-zero exit
cd "$(dirname "$0")/.."
props=${1:-"C01 C02 C03 C04 C05 C06 C07 C08 C09 C10 C13 C14 C17"}
seeds=${2:-"1 2 3 7 42"}
tier=${3:-quick}
bad=0
for s in $seeds; do for p in $props; do
  out=$(VERIF_SEED=$s ./check $p --tier $tier 2>&1); rc=$?
  echo "seed=$s $p rc=$rc $(echo "$out" | grep SUMMARY | cut -c1-160)"
  if [ $rc -ne 0 ]; then bad=$((bad+1)); echo "$out" | grep -E "VIOLATION|INCONCLUSIVE|key=" | head -8 | cut -c1-300; fi
done; done
echo "sweep done: $bad non-zero exits"
