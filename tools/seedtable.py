#!/usr/bin/env python3
"""Prints the markdown table of seeded changes (DESIGN.md section 11) from seeded/*/meta.json."""
import json, glob, os, re
rows = []
for d in sorted(glob.glob(os.path.join(os.path.dirname(os.path.dirname(os.path.abspath(__file__))), 'seeded', '*', ''))):
    m = json.load(open(d + 'meta.json'))
    diff = open(d + 'patch.diff').read()
    files = sorted(set(re.findall(r'^\+\+\+ b/(\S+)', diff, re.M)))
    what = ''
    if os.path.exists(d + 'README.md'):
        for l in open(d + 'README.md'):
            l = l.strip()
            if l.startswith('#'):
                what = l.lstrip('# ').strip()
                break
    caught = []
    for c in m['checks_run']:
        k = c['keys'].split(';')[0] if c['keys'] else ''
        if c['exit'] == 1:
            caught.append('%s (`%s`)' % (c['property'], k[:70]))
        else:
            caught.append('%s: not caught' % c['property'])
    note = m.get('note', '')
    rows.append('| %s | %s | %s | %s%s |' % (m['id'], ', '.join(files), what[:140].replace('|', '/'), '; '.join(caught), (' - ' + note) if note else ''))
print('| Seed | File(s) | Change (title given by its author) | Caught by (first key) |')
print('|---|---|---|---|')
print('\n'.join(rows))
