#!/bin/bash
# Offline setup: builds the small tools under bin/ from files on disk only and warms the
# Go build cache for the pinned toolchain.  Safe to run repeatedly.
set -eu
HERE=$(cd "$(dirname "${BASH_SOURCE[0]}")" && pwd)
. "$HERE/lib/common.sh"
mkdir -p "$HERE/bin" "$HERE/evidence" "$HERE/replays"
if [ -d "$HERE/tools/vinstr" ]; then
  ( cd "$HERE/tools/vinstr" && "$VGO" build -trimpath -o "$HERE/bin/vinstr" . )
fi
if [ -d "$HERE/tools/vfsmon" ]; then
  ( cd "$HERE/tools/vfsmon" && "$VGO" build -trimpath -o "$HERE/bin/vfsmon" . )
fi
echo "setup ok: $("$VGO" version)"
